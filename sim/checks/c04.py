"""
C04: token trees realise the grammar; source round-trips; results do not depend on the hash seed.

Simulated dimension: the interpreter hash seed. A "run" is a fresh interpreter started with
PYTHONHASHSEED=h processing the same VERIF_SEED-derived corpus; it records, per expression, the
token tree, the source string, the round-trip tree, the value, and per parser version the digest
of the tokenizer pattern. Across runs everything except the pattern text must be identical.
Riding along inside every run: tree == the tree the text was rendered from by the EBNF tables,
invariance under whitespace/comment placement, parse(t.source).tree == t.tree with equal values,
and rejection (XPST0003) of non-associative chains.
"""
import os
import sys
import json
import re
import time
import random
import hashlib
import subprocess

from ..refmodel import precedence as P

NAME = 'c04'
VERSIONS = ['1.0', '2.0', '3.0', '3.1']
DOC = '<r><a>1</a><b>2</b><c>3</c></r>'
VERIF_DIR = os.path.dirname(os.path.dirname(os.path.dirname(os.path.abspath(__file__))))


# constructs outside the operator grammar: only layout invariance, source round trip and hash-seed independence
# templates whose grouping is prescribed here (ExprSingle after return / satisfies / else takes a whole OrExpr, the comma
# operator stays outside): binders are not in the operator tables of the precedence model
FIXED_TREES = {
    "for $x in ( 1 , 2 ) return $x = 1 or $x = 2": "(for ($ (x)) (, (1) (2)) (or (= ($ (x)) (1)) (= ($ (x)) (2))))",
    "some $x in ( 1 , 2 ) satisfies $x = 1 or $x = 3": "(some ($ (x)) (, (1) (2)) (or (= ($ (x)) (1)) (= ($ (x)) (3))))",
    "every $x in ( 1 , 2 ) satisfies $x = 1 and $x = 3 or true ( )":
        "(every ($ (x)) (, (1) (2)) (or (and (= ($ (x)) (1)) (= ($ (x)) (3))) (true)))",
    "let $x := 1 return $x = 2 or $x = 1": "(let ($ (x)) (1) (or (= ($ (x)) (2)) (= ($ (x)) (1))))",
    "if ( 1 ) then 2 else 3 or 4": "(if (1) (2) (or (3) (4)))",
    "for $x in ( 1 , 2 ) return $x , 3": "(, (for ($ (x)) (, (1) (2)) ($ (x))) (3))",
    "for $x in ( 1 , 2 ) return if ( $x = 1 ) then 'a' else 'b' , 'c'":
        "(, (for ($ (x)) (, (1) (2)) (if (= ($ (x)) (1)) ('a') ('b'))) ('c'))",
    "for $x in ( 1 , 2 ) , $y in ( 3 , 4 ) return $x + $y = 5 and $y = 4":
        "(for ($ (x)) (, (1) (2)) ($ (y)) (, (3) (4)) (and (= (+ ($ (x)) ($ (y))) (5)) (= ($ (y)) (4))))",
    "let $x := 1 , $y := 2 return $x + $y * 2 to 7": "(let ($ (x)) (1) ($ (y)) (2) (to (+ ($ (x)) (* ($ (y)) (2))) (7)))",
    "1 + ( for $x in ( 1 , 2 ) return $x ) [ 1 ]": "(+ (1) ([ (for ($ (x)) (, (1) (2)) ($ (x))) (1)))",
    "some $x in ( 1 , 2 ) satisfies $x = 1 , 3": "(, (some ($ (x)) (, (1) (2)) (= ($ (x)) (1))) (3))",
    "if ( 1 ) then 2 else 3 , 4": "(, (if (1) (2) (3)) (4))",
    "- 1 + ( let $x := 2 return $x * 3 ) * 2": "(+ (- (1)) (* (let ($ (x)) (2) (* ($ (x)) (3))) (2)))",
}

FIXED = [
    "map { 1 : 2 , 'a' : ( 3 , 4 ) }", "map { }", "[ 1 , 2 ]", "array { 1 , 2 }", "[ 1 ] ? 1", "map { 1 : 2 } ? 1", "$m ? key", "$m ? *",
    "$m ? ( 1 + 1 )", "1 => abs ( )", "$f ( 1 , ? )", "concat ( ? , 'a' )", "abs # 1", "function ( $a , $b ) { $a + $b }",
    "function ( $a as xs:integer ) as xs:integer { $a }", "let $x := 1 , $y := 2 return $x + $y",
    "for $x in ( 1 , 2 ) , $y in ( 3 , 4 ) return $x * $y", "if ( 1 ) then 2 else 3", "some $x in ( 1 , 2 ) satisfies $x = 1",
    "child :: a", "descendant-or-self :: node ( )", "a / @ b", "@ *", "element ( a )", "element ( * , xs:integer )", "attribute ( b )",
    "document-node ( element ( a ) )", "processing-instruction ( 'x' )", "text ( )", ". instance of element ( ) *",
    ". instance of map ( * )", ". instance of map ( xs:string , item ( ) * )", ". instance of function ( * )",
    ". instance of function ( xs:integer ) as xs:integer", "1 treat as item ( ) +", "'a' cast as xs:string ?", "xs:integer ( '1' )",
    "fn:abs ( - 1 )", "math:pi ( )", "$v [ 1 ] [ . = 1 ]", "( 1 , 2 ) ! ( . + 1 )", "'a' || 'b'", "'it''s'", "a [ 1 ] / b [ @ c = 'd' ] // e",
    "( )", ". / .", ".. / a", "/ a", "// a", "/", "a // b", "$a << $b", "every $x in ( ) satisfies $x", "$f ( )", "a / text ( )",
    "a [ last ( ) ]", "count ( ( 1 , 2 ) )", "string-join ( ( 'a' , 'b' ) , '-' )", "1 => concat ( 'a' ) => upper-case ( )",
    "array:size ( [ ] )", "map:get ( map { 'k' : 1 } , 'k' )", "$f ( ? ) ( 1 )", "function ( ) { 1 } ( )",
    "'a' => fn:upper-case ( )", "'a' => Q{http://www.w3.org/2005/xpath-functions}upper-case ( )", "4 => math:sqrt ( )",
    "'a' => fn:concat ( 'b' ) => fn:upper-case ( )", "@n instance of attribute ( n ) *", ". instance of element ( a ) +",
    ". instance of document-node ( element ( a ) ) ?", "1 cast as Q{http://www.w3.org/2001/XMLSchema}integer ?",
    "$x treat as map ( xs:string , xs:integer ) *", ". instance of array ( xs:integer ) ?", ". instance of array ( xs:integer + )",
    ". instance of map ( xs:integer , xs:string ? ) +", "\"it's\"", "'a\"b'", "12.", ".5", "0.00000001", "1 to 3",
    "let $f := abs # 1 return - 1 => $f ( )", "Q{http://www.w3.org/2005/xpath-functions}abs ( - 1 )", "xs:string ( 1.50 )",
    "1 instance of xs:integer ?", "( 1 , 2 ) instance of xs:integer +", "'x' castable as xs:integer ?",
    "( 1 , 2 , 3 ) => reverse ( )", "'abc' => contains ( 'a' )", "( 3 , 1 ) => sort ( )", "( 1 , 2 ) => head ( )",
    "( 1 , 2 , 3 ) => ( function ( $s ) { count ( $s ) } ) ( )", "- 1 => ( abs # 1 ) ( )", "( 1 , 2 ) => tail ( ) => count ( )",
    "( 1 , 2 ) => for-each ( function ( $x ) { $x + 1 } )", "'a' => ( concat ( ? , 'b' , ? ) ) ( 'c' )",
    "if ( a , 2 ) then 1 else 0", "a / node ( ) * 2", "a / text ( ) + 1", ". instance of node ( ) ? and true ( )",
    "( 3 => concat ( ? , 2 ) ) ( 1 )", "( 1 , 2 , 3 ) => remove ( ? ) ",
    "( ) cast as Q{http://www.w3.org/2001/XMLSchema}integer ?", "( ) instance of Q{http://www.w3.org/2001/XMLSchema}integer *",
    "( 1 , 2 ) treat as Q{http://www.w3.org/2001/XMLSchema}integer +", "( ) castable as Q{http://www.w3.org/2001/XMLSchema}date ?",
    "let $ count := 1 return $ count + 1", "for $ string in ( 1 , 2 ) return $ string * 2",
    "function ( $a as attribute ( x ) ) { 1 }", "function ( $a as attribute ( x , xs:untypedAtomic ) * ) { $a } ( ( ) )",
    "function ( $a as element ( * , xs:untyped ? ) ) { 1 }", "a / element ( Q{}b )", "a / element ( Q{http://example.com/ns/p}b )",
    "a / attribute ( Q{}y )", ". instance of element ( * , Q{http://www.w3.org/2001/XMLSchema}untyped )",
    "@x instance of attribute ( Q{}x , Q{http://www.w3.org/2001/XMLSchema}untypedAtomic )", "a / attribute ( p:z )",
    "map { a : b }", "a ! map { b : c , 1 : d }",
    "map { h1 : b }", "map { a / b2 : 1 }", ". instance of map ( xs:string , map ( * ) )", ". instance of map ( xs:string , array ( * ) )",
    "function ( $m as map ( xs:string , array ( * ) ) ) { 1 }", ". instance of map ( xs:string , function ( * ) )",
    ". instance of map ( xs:string , attribute ( x ) )", ". instance of array ( map ( * ) )",
    "( ) instance of function ( * ) ?", "( ) instance of function ( * ) +", "( abs # 1 , abs # 1 ) instance of function ( * ) *",
    "( ) treat as function ( * ) ?", "( ) instance of map ( * ) ?", "( ) instance of array ( * ) +",
] + sorted(FIXED_TREES)


def corpus_item(corpus_seed, i):
    rng = random.Random(hashlib.sha256(('c04/%d/%d' % (corpus_seed, i)).encode()).digest())
    version = rng.choice(VERSIONS)
    if i < len(FIXED):
        # every template is in every corpus (with a layout of its own); more picks follow at random
        return {'kind': 'fixed', 'v': '3.1', 'tokens': FIXED[i].split(' '), 'layout_seed': rng.randrange(1 << 30), 'i': i}
    if rng.random() < 0.05:
        bad = rng.choice(['1 => zz:f()', '1 => (', '1 => math:', 'a[', '(1', '1 +', 'count(', '$', '1 => zz:f(2)', 'f(1',
                          "'a' => tns:g()", 'a/', '1 to', 'if (1) then', 'for $x in', 'map{1:', '[1,'])
        return {'kind': 'bad', 'v': version, 'text': bad, 'i': i}
    if rng.random() < 0.02 and version != '1.0':
        form = rng.choice(["p:t%d ( 'a' )", "p:t%d(: c :)('a')", "( p:t%d ( 'a' ) , p:t%d ( 'b' ) )", "/ r / p:t%d", "p:t%d # 1"])
        return {'kind': 'regctor', 'v': version, 'text': form.replace('%d', str(i)), 'i': i}
    if rng.random() < 0.02 and version in ('3.0', '3.1'):
        form = rng.choice(["function ( $a as p:%s ) { 1 }", "1 instance of p:%s", "function ( $a as p:%s ? ) as p:%s * { $a }",
                           "'5' cast as p:%s", "( ) treat as p:%s *"])
        return {'kind': 'schematype', 'v': version, 'form': form, 'i': i}
    if rng.random() < 0.12:
        return {'kind': 'fixed', 'v': '3.1', 'tokens': rng.choice(FIXED).split(' '), 'layout_seed': rng.randrange(1 << 30), 'i': i}
    if rng.random() < 0.06:
        chains = P.nonassoc_chains(rng, version)
        if chains:
            return {'kind': 'chain', 'v': version, 'text': rng.choice(chains), 'i': i}
    depth = rng.choice([1, 2, 2, 3, 3, 4])
    ast = P.gen_tree(rng, version, depth)
    item = {'kind': 'tree', 'v': version, 'ast': ast, 'layout_seed': rng.randrange(1 << 30),
            'redundant': rng.choice([0.0, 0.0, 0.15, 0.4]), 'i': i}
    if version != '1.0' and rng.random() < 0.2:
        item['compat'] = True       # the grammar of the selected version holds in compatibility mode too
    return item


def parser_for(v, compat=False):
    import elementpath
    from elementpath.xpath30 import XPath30Parser
    from elementpath.xpath31 import XPath31Parser
    cls = {'1.0': elementpath.XPath1Parser, '2.0': elementpath.XPath2Parser, '3.0': XPath30Parser, '3.1': XPath31Parser}[v]
    if compat and v != '1.0':
        return cls(namespaces=dict(P.NAMESPACES), compatibility_mode=True)
    return cls(namespaces=dict(P.NAMESPACES))


SHARED = {}


def shared_parser(v, compat=False):
    """One long-lived parser instance per (version, mode): parse results must not depend on what the
    instance parsed before (failed parses included)."""
    key = (v, bool(compat))
    if key not in SHARED:
        SHARED[key] = parser_for(v, compat)
    return SHARED[key]


def syntax_tree(parser, text):
    """Pure-syntax parse (no static evaluation): the grouping the tokenizer+grammar produce."""
    from elementpath.tdop import Parser
    if parser.tokenizer is None:
        parser.tokenizer = parser.create_tokenizer(parser.symbol_table)
    return Parser.parse(parser, text)


def outcome_of(parser, text, root):
    """('ok', tree, source, value) | ('error', code-or-class)."""
    import elementpath
    from ..canon import canon, canon_exc
    try:
        tk = syntax_tree(parser, text)
    except Exception as e:
        return ['syntax-error', canon_exc(e)]
    rec = ['ok', tk.tree, tk.source]
    try:
        tk2 = parser.parse(text)
        rec.append(['parsed', tk2.tree, tk2.source])
        try:
            ctx = elementpath.XPathContext(root, variables={'v': 1, 'w': 2})
            rec.append(['value', canon(tk2.get_results(ctx))])
        except Exception as e:
            rec.append(canon_exc(e))
    except Exception as e:
        rec.append(['parse-raised', canon_exc(e)])
        rec.append(None)
    return rec


def process_item(item, history=None):
    """All in-process observations for one corpus item; returns (record, violations)."""
    import xml.etree.ElementTree as ET
    root = ET.fromstring(DOC)
    v = item['v']
    compat = bool(item.get('compat'))
    parser = parser_for(v, compat)
    viol = []
    feats = ['v' + v] + (['compatibility-mode'] if compat else [])

    def violate(cls, sig, detail, extra=()):
        viol.append({'cls': cls, 'signature': sig, 'detail': detail, 'features': sorted(set(feats) | set(extra))})

    if item['kind'] == 'regctor':
        # a schema type constructor registered on an instance that has parsed before: tokens and trees as on a fresh
        # instance where the same constructor was registered before the first parse
        name = '{%s}t%d' % (P.NAMESPACES['p'], item['i'])
        text = item['text']
        parser.schema_constructor(name)
        rec = outcome_of(parser, text, root)
        sh = shared_parser(v, compat)
        try:
            sh.parse('1')
        except Exception:
            pass
        sh.schema_constructor(name)
        used = outcome_of(sh, text, root)
        if used[:3] != rec[:3]:
            violate('HISTORY', 'schema-constructor-registered-after-a-parse:' + v,
                    '%r parses as %r on an instance that registered the constructor after a parse, as %r on a fresh one' % (
                        text, used[:3], rec[:3]), ['needs-history'])
        return {'i': item['i'], 'text': text, 'rec': rec[:3], 'shared': used[:3]}, viol
    if item['kind'] == 'schematype':
        # a type name of the in-scope schema: what one parser decides about it must not depend on what a parser with
        # another static context (no schema) decided about the same text before, nor the other way round
        import xmlschema
        from xmlschema.xpath import XMLSchemaProxy
        ta, tb = 'pct%da' % item['i'], 'pct%db' % item['i']
        ns = P.NAMESPACES['p']
        xsd = ('<xs:schema xmlns:xs="http://www.w3.org/2001/XMLSchema" targetNamespace="%s">' % ns + ''.join(
            '<xs:simpleType name="%s"><xs:restriction base="xs:integer"><xs:maxInclusive value="100"/></xs:restriction>'
            '</xs:simpleType>' % t for t in (ta, tb)) + '<xs:element name="r" type="xs:string"/></xs:schema>')
        proxy = XMLSchemaProxy(xmlschema.XMLSchema(xsd))
        cls = type(parser)
        text_a, text_b = item['form'].replace('%s', ta), item['form'].replace('%s', tb)
        plain_first = [outcome_of(cls(namespaces=dict(P.NAMESPACES)), text_a, root)[:3],
                       outcome_of(cls(namespaces=dict(P.NAMESPACES), schema=proxy), text_a, root)[:3]]
        schema_first = [outcome_of(cls(namespaces=dict(P.NAMESPACES), schema=proxy), text_b, root)[:3],
                        outcome_of(cls(namespaces=dict(P.NAMESPACES)), text_b, root)[:3]]
        schema_first.reverse()
        norm = [[str(x).replace(tb, ta) for x in o] for o in schema_first]
        if norm != [[str(x) for x in o] for o in plain_first]:
            violate('HISTORY', 'type-name-decision-depends-on-other-parsers:' + v,
                    '%r: a parser without schema then one with the schema give %r; in the other order (type %s) they give %r' % (
                        text_a, plain_first, tb, schema_first), ['needs-history'])
        return {'i': item['i'], 'text': text_a, 'rec': [[str(x) for x in o] for o in plain_first]}, viol
    if item['kind'] == 'bad':
        rec = outcome_of(parser, item['text'], root)
        used = outcome_of(shared_parser(v, compat), item['text'], root)
        return {'i': item['i'], 'text': item['text'], 'rec': rec[:2], 'shared': used[:2]}, viol
    if item['kind'] == 'chain':
        rec = outcome_of(parser, item['text'], root)
        if rec[0] == 'ok':
            violate('GROUPING', 'non-associative-chain-accepted:' + v,
                    '%s accepts %r as %s; the grammar makes the operator non-associative' % (v, item['text'], rec[1]),
                    ['chain'])
        return {'i': item['i'], 'text': item['text'], 'rec': rec}, viol

    if item['kind'] == 'fixed':
        rng = random.Random(item['layout_seed'])
        toks = item['tokens']
        canon_text = P.layout(toks, rng, v, 'canon')
        parts = P.layout_parts(toks, rng, v)
        varied_text = ''.join(parts)
        rec = outcome_of(parser, canon_text, root)
        out = {'i': item['i'], 'text': canon_text, 'rec': rec}
        if rec[0] != 'ok':
            # every template is a valid XPath 3.1 expression
            violate('GROUPING', 'valid-expression-rejected:fixed:' + canon_text,
                    '3.1 rejects the template %r (%r)' % (canon_text, rec[1]), ['template:' + canon_text])
            return out, viol
        want_tree = FIXED_TREES.get(' '.join(toks))
        if want_tree is not None and rec[1] != want_tree:
            violate('GROUPING', 'tree-differs-from-grammar:fixed:' + canon_text,
                    '3.1 parses %r as %s; the grammar prescribes %s' % (canon_text, rec[1], want_tree), ['template:' + canon_text])
        rec_var = outcome_of(parser_for(v), varied_text, root)
        out['varied'] = [varied_text, rec_var]
        feats.append('fixed-template')
        if rec_var[0] != 'ok' or rec_var[1] != rec[1]:
            # is the failure explained by a comment right before a '?' placeholder or next to the ':' of a map
            # constructor entry? Re-lay those gaps with one blank and parse again.
            fixed = list(parts)
            for ti, tk in enumerate(toks):
                pos = 1 + 2 * ti            # index of token ti in parts; the gap before it is pos - 1
                if tk == '?' and ti and toks[ti - 1] in ('(', ','):
                    fixed[pos - 1] = ' '
                if tk == ':' and 'map' in toks:
                    fixed[pos - 1] = ' '
                    if pos + 1 < len(fixed) - 1:
                        fixed[pos + 1] = ' '
            if fixed != parts:
                rec_fix = outcome_of(parser_for(v), ''.join(fixed), root)
                if rec_fix[0] == 'ok' and rec_fix[1] == rec[1]:
                    feats.append('explained-by-comment-next-to-placeholder-or-map-colon')
            violate('LAYOUT', 'whitespace-or-comment-changes-tree:fixed:' + canon_text,
                    '%r parses as %s but %r as %r' % (canon_text, rec[1], varied_text, rec_var[:2]),
                    ['template:' + canon_text])
        rt = outcome_of(parser_for(v), rec[2], root)
        out['roundtrip'] = rt
        if rt[0] != 'ok' or rt[1] != rec[1]:
            violate('ROUNDTRIP', 'source-does-not-reparse-to-same-tree:fixed:' + canon_text,
                    'source %r of %r re-parses as %r, original tree %s' % (rec[2], canon_text, rt[:2], rec[1]),
                    ['template:' + canon_text])
        elif len(rec) > 4 and len(rt) > 4 and rec[4] is not None and rt[4] is not None and rec[4] != rt[4]:
            violate('ROUNDTRIP', 'source-evaluates-differently:fixed:' + canon_text,
                    '%r gives %r but its source %r gives %r' % (canon_text, rec[4], rec[2], rt[4]), ['template:' + canon_text])
        return out, viol
    tbl = P.table(v)
    ast = item['ast']
    rng = random.Random(item['layout_seed'])
    toks = P.tokens(ast, tbl, v, rng, item.get('redundant', 0.0))
    if any(a in P.TYPES and b in ('*', '+', '?') for a, b in zip(toks, toks[1:])):
        # extra-grammatical constraint 'occurrence-indicators': a '*' or '+' right after a sequence type is an
        # occurrence indicator, so this text is not the rendering of the tree; not a test case
        return {'i': item['i'], 'text': ' '.join(toks), 'rec': ['skipped-occurrence-indicator-ambiguity']}, viol
    canon_text = P.layout(toks, rng, v, 'canon')
    varied_text = P.layout(toks, rng, v, 'varied')
    want = P.expected_tree(ast)
    ops = sorted(set(_ops(ast)))
    feats += ['op:' + o for o in ops]
    rec = outcome_of(parser, canon_text, root)
    rec_var = outcome_of(parser_for(v, compat), varied_text, root)
    used = outcome_of(shared_parser(v, compat), canon_text, root)
    if used[:3] != rec[:3]:
        violate('HISTORY', 'long-lived-parser-differs-from-fresh:' + v,
                'a parser instance that has parsed the earlier corpus items parses %r as %r, a fresh instance as %r' % (
                    canon_text, used[:3], rec[:3]), ['needs-history'])
    out = {'i': item['i'], 'text': canon_text, 'rec': rec, 'varied': [varied_text, rec_var]}
    if rec[0] != 'ok':
        extra = []
        if v == '1.0' and _has_unparenthesised_comparison_chain(ast, tbl):
            extra.append('xpath1-comparison-chain')
        violate('GROUPING', 'valid-expression-rejected:' + v,
                '%s rejects %r (%r); it was rendered from %s by the EBNF tables' % (v, canon_text, rec[1], want), extra)
        return out, viol
    if rec[1] != want:
        extra = []
        if v == '1.0' and 'un' in _kinds(ast) and '|' in ops:
            extra.append('xpath1-unary-minus-vs-union')
        if v == '1.0' and any(o in ops for o in ('=', '!=', '<', '<=', '>', '>=')):
            extra.append('xpath1-comparison-chain')
        violate('GROUPING', 'tree-differs-from-grammar:' + v,
                '%s parses %r as %s; the EBNF grouping is %s' % (v, canon_text, rec[1], want), extra)
    if rec_var[0] != 'ok' or rec_var[1] != rec[1]:
        violate('LAYOUT', 'whitespace-or-comment-changes-tree:' + v,
                '%r parses as %s but %r as %r' % (canon_text, rec[1], varied_text, rec_var[:2]))
    # source round trip
    src = rec[2]
    rt = outcome_of(parser_for(v, compat), src, root)
    out['roundtrip'] = rt
    if rt[0] != 'ok' or rt[1] != rec[1]:
        extra = []
        # is the difference exactly "a double literal came back as a decimal" (its source has no exponent)?
        as_decimal = rec[1]
        for node in _walk_ast(ast):
            if node[0] == 'lit' and re.match(r'^\(\d+\.\d+\)$', node[2]):
                as_decimal = as_decimal.replace(node[2], "(Decimal('%s'))" % node[2][1:-1])
        if as_decimal != rec[1] and rt[0] == 'ok' and rt[1] == as_decimal:
            extra.append('explained-by-double-literal-source')
        violate('ROUNDTRIP', 'source-does-not-reparse-to-same-tree:' + v,
                'source %r of %r re-parses as %r, original tree %s' % (src, canon_text, rt[:2], rec[1]), extra)
    elif len(rec) > 4 and len(rt) > 4 and rec[4] is not None and rt[4] is not None and rec[4] != rt[4]:
        violate('ROUNDTRIP', 'source-evaluates-differently:' + v,
                '%r gives %r but its source %r gives %r' % (canon_text, rec[4], src, rt[4]))
    if len(rec) > 3 and rec[3][0] == 'parsed' and (rec[3][1] != rec[1] or rec[3][2] != rec[2]):
        violate('GROUPING', 'public-parse-differs-from-syntax-parse:' + v,
                'parse(%r).tree is %s, the pure syntax tree is %s' % (canon_text, rec[3][1], rec[1]))
    return out, viol


XP1_COMPARISONS = ('=', '!=', '<', '<=', '>', '>=')


def _walk_ast(ast):
    yield ast
    for ch in ast[1:]:
        if isinstance(ch, list):
            yield from _walk_ast(ch)


def _has_unparenthesised_comparison_chain(ast, tbl):
    if ast[0] == 'bin' and ast[1] in XP1_COMPARISONS:
        for side, ch in (('L', ast[2]), ('R', ast[3])):
            if ch[0] == 'bin' and ch[1] in XP1_COMPARISONS and not P.need_parens(ch, ast, side, tbl, '1.0'):
                return True
    return any(isinstance(ch, list) and ch and isinstance(ch[0], str) and _has_unparenthesised_comparison_chain(ch, tbl)
               for ch in ast[1:])


def _ops(ast):
    if ast[0] in ('bin', 'type'):
        yield ast[1]
    for ch in ast[1:]:
        if isinstance(ch, list):
            for x in _ops(ch):
                yield x


def _kinds(ast):
    out = {ast[0]}
    for ch in ast[1:]:
        if isinstance(ch, list):
            out |= _kinds(ch)
    return out


def tokenizer_patterns():
    out = {}
    for v in VERSIONS:
        p = parser_for(v)
        if p.tokenizer is None:
            p.tokenizer = p.create_tokenizer(p.symbol_table)
        out[v] = hashlib.sha256(p.tokenizer.pattern.encode()).hexdigest()[:16]
    return out


# ---- worker: one fresh interpreter per hash seed -----------------------------------------------------------

def worker_main(argv):
    corpus_seed, start, n = int(argv[0]), int(argv[1]), int(argv[2])
    only = json.loads(argv[3]) if len(argv) > 3 else None
    repo = os.path.realpath(os.environ.get('VERIF_REPO', '/repo'))
    sys.path.insert(0, repo)
    sys.path.insert(0, VERIF_DIR)
    import elementpath
    assert os.path.realpath(elementpath.__file__).startswith(repo + os.sep)
    out = sys.stdout
    out.write(json.dumps({'patterns': tokenizer_patterns(), 'hashseed': os.environ.get('PYTHONHASHSEED')}) + '\n')
    items = [only] if only is not None else [corpus_item(corpus_seed, i) for i in range(start, start + n)]
    for item in items:
        rec, viol = process_item(item)
        digest = hashlib.sha256(json.dumps(rec, sort_keys=True, default=str).encode()).hexdigest()[:20]
        out.write(json.dumps({'i': item['i'], 'd': digest, 'viol': viol, 'rec': rec if only is not None else None},
                             default=str) + '\n')


def spawn(hashseed, corpus_seed, start, n, only=None):
    env = dict(os.environ, PYTHONHASHSEED=str(hashseed))
    args = [sys.executable, '-B', os.path.join(VERIF_DIR, 'sim', 'c04_worker.py'), str(corpus_seed), str(start), str(n)]
    if only is not None:
        args.append(json.dumps(only))
    return subprocess.Popen(args, env=env, stdout=subprocess.PIPE, stderr=subprocess.PIPE, text=True)


# ---- arm interface (used for replay and minimisation) --------------------------------------------------------

def gen_case(rng, tier):
    return {'config': {}, 'item': corpus_item(rng.randrange(1 << 30), 0), 'hashseeds': []}


def run_case(case, world):
    item = case['item']
    SHARED.clear()
    for prev in case.get('history', ()):        # the long-lived parsers first see what they saw in the batch
        try:
            process_item(prev)
        except Exception:
            pass
    rec, viol = process_item(item)
    world.event(('item', rec.get('text')))
    if case.get('hashseeds'):
        digs = {}
        for h in case['hashseeds']:
            p = spawn(h, 0, 0, 0, only=item)
            so, se = p.communicate(timeout=120)
            lines = [json.loads(x) for x in so.splitlines() if x.strip()]
            if len(lines) >= 2:
                digs[h] = lines[1]
        ds = set(v['d'] for v in digs.values())
        if len(ds) > 1:
            hs = sorted(digs)
            viol.append({'cls': 'HASH_SEED', 'signature': 'result-depends-on-hash-seed:' + item['v'],
                         'detail': 'PYTHONHASHSEED=%s gives %r, PYTHONHASHSEED=%s gives %r' % (
                             hs[0], digs[hs[0]]['rec'], hs[-1], digs[hs[-1]]['rec']),
                         'features': ['v' + item['v']]})
    return {'violations': viol, 'stats': {'items': 1}, 'nontrivial': ['x']}


# ---- batch driver -----------------------------------------------------------------------------------------------

def run_check(prop_mod, tier, verif_seed, nruns=None, workers=None, wall_cap=None, write_evidence=True, **_):
    from .. import runner
    t0 = time.time()
    cfg = prop_mod.TIERS[tier]
    nseeds = nruns or cfg['hash_seeds']
    nitems = cfg['items']
    workers = workers or min(16, os.cpu_count() or 1)
    wall_cap = wall_cap or cfg.get('wall_cap', 600)
    hrng = random.Random(hashlib.sha256(('c04-hashseeds/%d' % verif_seed).encode()).digest())
    hashseeds = [0] + sorted(set(hrng.randrange(1, 1 << 32) for _ in range(nseeds - 1)))
    known = runner.load_known()
    results = {}        # hashseed -> {'patterns':..., 'items': {i: line}}
    pending = list(hashseeds)
    running = []
    harness_errors = []
    while pending or running:
        while pending and len(running) < workers and time.time() - t0 < wall_cap:
            h = pending.pop(0)
            running.append((h, spawn(h, verif_seed, 0, nitems)))
        if not running:
            break
        h, p = running.pop(0)
        try:
            so, se = p.communicate(timeout=max(10, wall_cap - (time.time() - t0) + 60))
        except subprocess.TimeoutExpired:
            p.kill()
            harness_errors.append('worker for hash seed %s timed out' % h)
            continue
        lines = [json.loads(x) for x in so.splitlines() if x.strip()]
        if p.returncode != 0 or len(lines) < 1 + nitems:
            harness_errors.append('worker for hash seed %s failed: %s' % (h, se[-500:]))
            continue
        results[h] = {'patterns': lines[0]['patterns'], 'items': {ln['i']: ln for ln in lines[1:]}}
    done = sorted(results)
    violations = {}         # (cls, signature) -> case, viol, count
    counts = {'GROUPING': 0, 'LAYOUT': 0, 'ROUNDTRIP': 0, 'HASH_SEED': 0}
    base = results.get(done[0]) if done else None
    if base:
        # in-process oracles: taken from the first interpreter (they are pure functions of the item)
        for i, ln in sorted(base['items'].items()):
            for v in ln['viol']:
                # violations are grouped by class, signature AND the recorded finding their own features match
                # (or none): a recorded finding must never absorb another violation with the same signature
                kf = runner.match_known(known, 'C04', NAME, v)
                key = (v['cls'], v['signature'], kf['id'] if kf is not None else '')
                ent = violations.setdefault(key, [None, v, 0, i])
                ent[2] += 1
        # cross-seed comparison
        for h in done[1:]:
            for i, ln in results[h]['items'].items():
                if ln['d'] != base['items'][i]['d']:
                    item = corpus_item(verif_seed, i)
                    key = ('HASH_SEED', 'result-depends-on-hash-seed:' + item['v'], '')
                    ent = violations.setdefault(key, [{'config': {}, 'item': item, 'hashseeds': [done[0], h]}, None, 0, i])
                    ent[2] += 1
    out_lines = []
    final = []
    known_hits = {}
    replay_dir = os.path.join(VERIF_DIR, 'replays', 'C04')
    for key in sorted(violations):
        case, viol, count, i = violations[key]
        if case is None:
            case = {'config': {}, 'item': corpus_item(verif_seed, i), 'hashseeds': []}
            if key[0] == 'HISTORY':
                it = case['item']
                case['history'] = [x for x in (corpus_item(verif_seed, j) for j in range(i))
                                   if x['v'] == it['v'] and bool(x.get('compat')) == bool(it.get('compat'))]
        st, res = runner.fork_call(lambda: runner.execute(sys.modules[__name__], case), timeout=300)
        fv = None
        if st == 'ok':
            for v in res.get('violations', ()):
                kf = runner.match_known(known, 'C04', NAME, v)
                if (v['cls'], v['signature'], kf['id'] if kf is not None else '') == key:
                    fv = v
        fv = fv or viol or {'cls': key[0], 'signature': key[1], 'detail': 'not reproduced in a fresh process', 'features': []}
        k = runner.match_known(known, 'C04', NAME, fv)
        if k is not None:
            known_hits.setdefault(k['id'], [k, 0, fv])[1] += count
            continue
        os.makedirs(replay_dir, exist_ok=True)
        path = os.path.join(replay_dir, 'c04-%s.json' % runner.sig_hash(key[0] + '|' + key[1] + '|' + key[2]))
        with open(path, 'w') as fp:
            json.dump({'format': 1, 'property': 'C04', 'arm': NAME, 'verif_seed': verif_seed, 'run': i, 'tier': tier,
                       'case': case, 'verdict': {'cls': key[0], 'signature': key[1], 'detail': fv.get('detail'),
                                                 'features': fv.get('features', []), 'digest': None},
                       'occurrences_in_batch': count}, fp, indent=1, default=str)
        final.append((key, path, fv, count))
    for kid, (k, n, fv) in sorted(known_hits.items()):
        out_lines.append('KNOWN-FINDING: property=C04 %s [%s] (%d items; e.g. %s)' % (k['what'], kid, n, str(fv.get('detail'))[:200]))
    for key, path, fv, n in final:
        out_lines.append('VIOLATION property=C04 replay=%s' % path)
        out_lines.append('  class=%s signature=%s occurrences=%d detail=%s' % (key[0], key[1], n, str(fv.get('detail'))[:400]))
    for e in harness_errors[:5]:
        out_lines.append('HARNESS-ERROR %s' % e)
    wall = time.time() - t0
    patterns = {}
    for h in done:
        for v, d in results[h]['patterns'].items():
            patterns.setdefault(v, set()).add(d)
    samples = []
    if base:
        for i in sorted(base['items'])[:3]:
            it = corpus_item(verif_seed, i)
            samples.append({'item': it})
    distinct = len(set(ln['d'] for ln in base['items'].values())) if base else 0
    ev = {
        'property_id': 'C04', 'tier': tier, 'seed': verif_seed, 'level': prop_mod.LEVEL,
        'coverage': {
            'evaluations': len(done) * nitems,
            'distinct_nontrivial': distinct,
            'rule': prop_mod.RULE,
            'samples': samples or [{'note': 'none'}],
            'hash_seeds_run': len(done), 'hash_seeds_requested': len(hashseeds), 'items_per_seed': nitems,
            'distinct_tokenizer_patterns_per_version': {v: len(s) for v, s in patterns.items()},
            'runs_per_hour': int(len(done) / max(wall, 1e-6) * 3600),
            'faults_fired': {}, 'simulated_time_s': 0,
            'interleaving_measure': 'distinct tokenizer pattern texts (orders of the custom-pattern set) reached per parser version',
            'real_components': getattr(prop_mod, 'REAL', []), 'stub_components': getattr(prop_mod, 'STUB', []),
            'known_findings_hit': sorted(known_hits), 'harness_errors': len(harness_errors), 'exhaustive': False,
        },
        'assumptions': getattr(prop_mod, 'ASSUMPTIONS', []),
        'wall_s': round(wall, 2), 'violations': len(final),
    }
    if write_evidence:
        os.makedirs(os.path.join(VERIF_DIR, 'evidence'), exist_ok=True)
        with open(os.path.join(VERIF_DIR, 'evidence', 'C04.json'), 'w') as fp:
            json.dump(ev, fp, indent=1, default=str)
    for ln in out_lines:
        print(ln)
    print('C04 tier=%s seed=%d hash_seeds=%d/%d items=%d wall=%.1fs violations=%d known=%d harness_errors=%d '
          'distinct_patterns=%s' % (tier, verif_seed, len(done), len(hashseeds), nitems, wall, len(final), len(known_hits),
                                    len(harness_errors), {v: len(s) for v, s in patterns.items()}))
    if final:
        return 1, {}
    if harness_errors or len(done) < 2:
        return 2, {}
    return 0, {}


