"""Random XSD schemas over the built-in simple types with instances valid by construction."""

XS = 'http://www.w3.org/2001/XMLSchema'

# name -> (xsd type expression or named simple type, python kind, base chain for instance-of, value pool)
TYPES = {
    'integer': ('xs:integer', 'int', ['xs:integer', 'xs:decimal', 'xs:anyAtomicType'], ['1', '02', '-7', '0', '123456789012345678901']),
    'int': ('xs:int', 'int', ['xs:int', 'xs:long', 'xs:integer', 'xs:decimal'], ['1', '-5', '2147483647']),
    'nonNegativeInteger': ('xs:nonNegativeInteger', 'int', ['xs:nonNegativeInteger', 'xs:integer'], ['0', '7', '+3']),
    'decimal': ('xs:decimal', 'Decimal', ['xs:decimal', 'xs:anyAtomicType'], ['1.50', '-0.25', '3', '.5']),
    'double': ('xs:double', 'float', ['xs:double', 'xs:anyAtomicType'], ['1.5', '-2E3', 'INF', '0', '1e-2']),
    'float': ('xs:float', 'float', ['xs:float'], ['1.5', '2', '-0.5']),
    'boolean': ('xs:boolean', 'bool', ['xs:boolean'], ['true', 'false', '1', '0']),
    'string': ('xs:string', 'str', ['xs:string', 'xs:anyAtomicType'], ['abc', ' x ', '', '12', 'a b']),
    'token': ('xs:token', 'str', ['xs:token', 'xs:normalizedString', 'xs:string'], ['abc', 'a b', 'x']),
    'date': ('xs:date', 'lex', ['xs:date'], ['2000-01-01', '1999-12-31Z', '2024-02-29+02:00']),
    'dateTime': ('xs:dateTime', 'lex', ['xs:dateTime'], ['2000-01-01T12:00:00', '1999-12-31T23:59:59Z']),
    'time': ('xs:time', 'lex', ['xs:time'], ['12:00:00', '23:59:59Z']),
    'anyURI': ('xs:anyURI', 'str', ['xs:anyURI'], ['http://example.com/', 'a/b', '']),
    'smallInt': ('t:smallInt', 'int', ['t:smallInt', 'xs:integer', 'xs:decimal'], ['1', '5', '10']),
    'intList': ('t:intList', 'intlist', [], ['1 2 3', '7', '']),
    'intOrDate': ('t:intOrDate', 'union', [], ['12', '2000-01-01']),
    'intBoolString': ('t:intBoolString', 'union', [], ['12', 'true', 'abc', '0']),
    'integerOrDecimal': ('t:integerOrDecimal', 'union', [], ['7', '1.5', '-2.25']),
    'shortOrDouble': ('t:shortOrDouble', 'union', [], ['12', '1.0E3', '70000']),
    'boolOrInt': ('t:boolOrInt', 'union', [], ['true', '42', '0']),
    'decimalOrName': ('t:decimalOrName', 'union', [], ['1.5', 'gratis', 'x1', '-2']),
    'decimalOrDate': ('t:decimalOrDate', 'union', [], ['2.5', '2000-01-01', '7']),
    'unionList': ('t:unionList', 'union', [], ['1 2000-01-01 3', '12', '', '2000-01-01', '5 6']),
    'smallIntList': ('t:smallIntList', 'intlist', [], ['1 2', '', '10']),
    'boolOrIntList': ('t:boolOrIntList', 'union', [], ['true 0 1', '1 true', '0', 'false 7 true 8', '']),
    'intBoolStringList': ('t:intBoolStringList', 'union', [], ['true 0 1', 'abc 7', '1 true 0', 'false 12 x 3', '']),
}
# member types of the unions, in declaration order, and a lexical test per member: which member a value belongs to
UNION_MEMBERS = {
    'intOrDate': ['integer', 'date'], 'intBoolString': ['int', 'boolean', 'string'], 'integerOrDecimal': ['integer', 'decimal'],
    'shortOrDouble': ['short', 'double'], 'boolOrInt': ['boolean', 'int'], 'decimalOrName': ['decimal', 'NCName'],
    'decimalOrDate': ['decimal', 'date'],
}
_LEX = {
    'integer': r'^[+-]?[0-9]+$', 'int': r'^[+-]?[0-9]{1,9}$', 'short': r'^[+-]?[0-9]{1,4}$', 'decimal': r'^[+-]?([0-9]+(\.[0-9]*)?|\.[0-9]+)$',
    'double': r'^[+-]?([0-9]+(\.[0-9]*)?|\.[0-9]+)([eE][+-]?[0-9]+)?$|^-?INF$|^NaN$', 'boolean': r'^(true|false|1|0)$',
    'date': r'^-?[0-9]{4,}-[0-9]{2}-[0-9]{2}(Z|[+-][0-9]{2}:[0-9]{2})?$', 'NCName': r'^[A-Za-z_][\w.-]*$', 'string': r'^',
}


def union_member(tkey, lex):
    """(index, member type) of the first member of union tkey that accepts the lexical value, or None."""
    import re
    for i, m in enumerate(UNION_MEMBERS.get(tkey, ())):
        if re.match(_LEX[m], lex.strip()):
            return i, m
    return None


# lexical values that are valid only with XSD 1.1 (year zero) or that XSD 1.0 and 1.1 decode differently (BCE years)
XSD11_VALUES = {'date': ['0000-01-01', '-0044-03-15'], 'intOrDate': ['-0044-03-15', '0000-06-01', '12'],
                'dateTime': ['0000-01-01T00:00:00', '-0001-12-31T23:59:59Z'], 'decimalOrDate': ['-0044-03-15', '2.5']}
# xsi:type substitutions for an element declared as xs:integer: (type key, values)
XSI_TYPES = [('int', ['1', '-5', '12']), ('nonNegativeInteger', ['0', '7', '12'])]
TNS = 'http://example.com/t'

NAMED_TYPES = '''
 <xs:simpleType name="smallInt"><xs:restriction base="xs:integer"><xs:minInclusive value="1"/><xs:maxInclusive value="10"/></xs:restriction></xs:simpleType>
 <xs:simpleType name="intList"><xs:list itemType="xs:integer"/></xs:simpleType>
 <xs:simpleType name="intOrDate"><xs:union memberTypes="xs:integer xs:date"/></xs:simpleType>
 <xs:simpleType name="intBoolString"><xs:union memberTypes="xs:int xs:boolean xs:string"/></xs:simpleType>
 <xs:simpleType name="integerOrDecimal"><xs:union memberTypes="xs:integer xs:decimal"/></xs:simpleType>
 <xs:simpleType name="shortOrDouble"><xs:union memberTypes="xs:short xs:double"/></xs:simpleType>
 <xs:simpleType name="boolOrInt"><xs:union memberTypes="xs:boolean xs:int"/></xs:simpleType>
 <xs:simpleType name="decimalOrName"><xs:union memberTypes="xs:decimal xs:NCName"/></xs:simpleType>
 <xs:simpleType name="decimalOrDate"><xs:union memberTypes="xs:decimal xs:date"/></xs:simpleType>
 <xs:simpleType name="unionList"><xs:list itemType="t:intOrDate"/></xs:simpleType>
 <xs:simpleType name="smallIntList"><xs:list itemType="t:smallInt"/></xs:simpleType>
 <xs:simpleType name="boolOrIntList"><xs:list itemType="t:boolOrInt"/></xs:simpleType>
 <xs:simpleType name="intBoolStringList"><xs:list itemType="t:intBoolString"/></xs:simpleType>
'''

# a second schema for the same vocabulary must accept the same instances: map every type to a supertype
SUPERTYPE = {
    'integer': 'decimal', 'int': 'integer', 'nonNegativeInteger': 'integer', 'decimal': 'string', 'double': 'string',
    'float': 'double', 'boolean': 'string', 'string': 'string', 'token': 'string', 'date': 'string',
    'dateTime': 'string', 'time': 'string', 'anyURI': 'string', 'smallInt': 'integer', 'intList': 'string',
    'intOrDate': 'string', 'intBoolString': 'string', 'integerOrDecimal': 'string', 'shortOrDouble': 'string',
    'boolOrInt': 'string', 'decimalOrName': 'string', 'decimalOrDate': 'string', 'unionList': 'string',
    'smallIntList': 'string', 'boolOrIntList': 'string', 'intBoolStringList': 'string',
}


def gen_schema_spec(rng, max_elems=8):
    """A declarative spec: children of <r> (name, type key, repeat, simple-content attribute?) + root attributes."""
    n = rng.randint(1, max_elems)
    names = ['e%d' % i for i in range(n)]
    keys = sorted(TYPES)
    elems = []
    for nm in names:
        k = rng.choice(keys)
        ent = {'name': nm, 'type': k, 'max': rng.choice([1, 1, 3]), 'min': rng.choice([0, 1, 1])}
        if rng.random() < 0.25 and TYPES[k][1] not in ('intlist', 'union'):
            ent['attr'] = {'name': 'u', 'type': rng.choice(['boolean', 'integer', 'string', 'date'])}
        if rng.random() < 0.15:
            ent['nillable'] = True
            if rng.random() < 0.5 and '' not in TYPES[k][3] and 'attr' not in ent:
                # a default value: it applies to an empty element, never to a nilled one
                ent['default'] = rng.choice([v for v in TYPES[k][3]]).strip()
        if 'default' not in ent and 'attr' not in ent and rng.random() < 0.2 and '' not in TYPES[k][3] \
                and TYPES[k][1] in ('int', 'Decimal', 'float', 'bool', 'str', 'lex'):
            # a default (or fixed) value declared by both schemas: it is the typed value of an empty element
            ent['edefault'] = rng.choice([v for v in TYPES[k][3]]).strip()
            ent['efixed'] = rng.random() < 0.3
        elems.append(ent)
    attrs = []
    for an in ['id', 'n']:
        if rng.random() < 0.5:
            attrs.append({'name': an, 'type': rng.choice(['int', 'integer', 'boolean', 'string', 'date', 'decimal'])})
    groups = []
    if rng.random() < 0.5:
        # containers with anonymous complex types that declare a same-named local child with different types
        for gi in range(rng.choice([1, 2, 2, 3])):
            groups.append({'name': 'g%d' % gi, 'child': rng.choice(['v', 'v', 'w']), 'type': rng.choice(keys),
                           'max': rng.choice([1, 2])})
    spec = {'elems': elems, 'attrs': attrs, 'groups': groups}
    x = rng.random()
    if x < 0.15:
        spec['xsd11'] = True
    elif x < 0.35:
        # qualified local elements plus global declarations with the same names and other types
        spec['qualified'] = True
        spec['globals'] = [{'name': e['name'], 'type': rng.choice([k for k in ('date', 'boolean', 'double', 'string')
                                                                  if k != e['type']])}
                           for e in elems if rng.random() < 0.6]
    if rng.random() < 0.25:
        # an attribute wildcard on the root element and a global attribute declaration that it admits
        spec['anyattr'] = rng.choice(['lax', 'lax', 'strict'])
        spec['gattrs'] = [{'name': 'ga%d' % i, 'type': rng.choice(['int', 'integer', 'boolean', 'date', 'decimal', 'double', 'smallInt'])}
                          for i in range(rng.choice([1, 2]))]
    if rng.random() < 0.3:
        spec['xsi'] = True
        if len(elems) > 1 and rng.random() < 0.6:
            # an element that can carry an (empty) xsi:type right after an element declared with a default/fixed value
            i = rng.randrange(1, len(elems))
            elems[i] = {'name': elems[i]['name'], 'type': 'string', 'max': elems[i]['max'], 'min': elems[i]['min']}
            prev = elems[i - 1]
            if 'attr' not in prev and 'default' not in prev and TYPES[prev['type']][1] in ('int', 'Decimal', 'float', 'bool', 'lex') \
                    and '' not in TYPES[prev['type']][3]:
                prev['edefault'] = rng.choice([v for v in TYPES[prev['type']][3]]).strip()
                prev['efixed'] = rng.random() < 0.3
                prev['min'] = 1
    return spec


def render_schema(spec, variant='A'):
    """variant 'A' = declared types; 'B' = a second schema for the same vocabulary (supertypes)."""
    def tname(k):
        if variant == 'B':
            k = SUPERTYPE[k]
        return TYPES[k][0]

    parts = ['<xs:schema xmlns:xs="%s" xmlns:t="%s" targetNamespace="%s" elementFormDefault="%s">' % (
        XS, TNS, TNS, 'qualified' if spec.get('qualified') else 'unqualified')]
    parts.append(NAMED_TYPES)
    for g in spec.get('globals', ()):
        parts.append('<xs:element name="%s" type="%s"/>' % (g['name'], tname(g['type'])))
    for ga in spec.get('gattrs', ()):
        parts.append('<xs:attribute name="%s" type="%s"/>' % (ga['name'], tname(ga['type'])))
    parts.append('<xs:element name="r"><xs:complexType><xs:sequence>')
    for e in spec['elems']:
        occ = ' minOccurs="%d" maxOccurs="%d"' % (e['min'], e['max'])
        nil = ' nillable="true"' if e.get('nillable') else ''
        if 'attr' in e:
            parts.append('<xs:element name="%s"%s%s><xs:complexType><xs:simpleContent><xs:extension base="%s">'
                         '<xs:attribute name="%s" type="%s"/></xs:extension></xs:simpleContent></xs:complexType>'
                         '</xs:element>' % (e['name'], occ, nil, tname(e['type']), e['attr']['name'], tname(e['attr']['type'])))
        else:
            dflt = ' default="%s"' % e['default'] if e.get('default') and variant == 'A' else ''
            if e.get('edefault'):
                dflt = ' %s="%s"' % ('fixed' if e.get('efixed') else 'default', e['edefault'])
            parts.append('<xs:element name="%s" type="%s"%s%s%s/>' % (e['name'], tname(e['type']), occ, nil, dflt))
    for g in spec.get('groups', ()):
        parts.append('<xs:element name="%s" minOccurs="0"><xs:complexType><xs:sequence>'
                     '<xs:element name="%s" type="%s" maxOccurs="%d"/></xs:sequence></xs:complexType></xs:element>' % (
                         g['name'], g['child'], tname(g['type']), g['max']))
    parts.append('</xs:sequence>')
    for a in spec['attrs']:
        parts.append('<xs:attribute name="%s" type="%s"/>' % (a['name'], tname(a['type'])))
    if spec.get('anyattr'):
        parts.append('<xs:anyAttribute namespace="##targetNamespace" processContents="%s"/>' % spec['anyattr'])
    parts.append('</xs:complexType></xs:element></xs:schema>')
    return ''.join(parts)


def gen_instance(rng, spec):
    """XML text valid against render_schema(spec, 'A') (and 'B'); returns (xml, facts) where facts lists
    (path, type key, lexical value) for every simple-typed element and attribute."""
    facts = []
    attrs = ''
    for a in spec['attrs']:
        if rng.random() < 0.8:
            v = rng.choice(TYPES[a['type']][3]).strip() or '0'
            if TYPES[a['type']][1] == 'str' and a['type'] != 'string':
                v = v or 'x'
            attrs += ' %s="%s"' % (a['name'], v)
            facts.append({'path': '/t:r/@%s' % a['name'], 'type': a['type'], 'lex': v, 'kind': 'attribute'})
    for ga in spec.get('gattrs', ()):
        if rng.random() < 0.8:
            v = rng.choice(TYPES[ga['type']][3]).strip() or '0'
            attrs += ' t:%s="%s"' % (ga['name'], v)
            facts.append({'path': '/t:r/@t:%s' % ga['name'], 'type': ga['type'], 'lex': v, 'kind': 'attribute'})
    body = ''
    q = 't:' if spec.get('qualified') else ''

    def pool(tkey):
        if spec.get('xsd11') and tkey in XSD11_VALUES and rng.random() < 0.6:
            return XSD11_VALUES[tkey]
        return TYPES[tkey][3]

    for e in spec['elems']:
        k = rng.randint(e['min'], e['max'])
        for i in range(k):
            v = rng.choice(pool(e['type']))
            a = ''
            if e.get('edefault'):
                if rng.random() < 0.5:
                    body += '<%s%s/>' % (q, e['name'])
                    facts.append({'path': '/t:r/%s%s[%d]' % (q, e['name'], i + 1), 'type': e['type'], 'lex': '', 'kind': 'element',
                                  'eff': e['edefault']})
                    continue
                if e.get('efixed'):
                    v = e['edefault']
            if spec.get('xsi') and e['type'] == 'string' and 'attr' not in e and not e.get('edefault') and rng.random() < 0.4:
                # an empty element with an xsi:type: the empty string, whatever its neighbours declare
                pfx = spec.get('xsi_prefix', 'xs')
                body += '<%s%s xmlns:%s="%s" xmlns:xsi="http://www.w3.org/2001/XMLSchema-instance" xsi:type="%s:token"/>' % (
                    q, e['name'], pfx, XS, pfx)
                facts.append({'path': '/t:r/%s%s[%d]' % (q, e['name'], i + 1), 'type': 'token', 'lex': '', 'kind': 'element',
                              'xsi': True})
                continue
            if spec.get('xsi') and e['type'] == 'integer' and 'attr' not in e and rng.random() < 0.5:
                # the prefix of the xsi:type value is declared on the element itself
                xt, vals = rng.choice(XSI_TYPES)
                v = rng.choice(vals)
                pfx = spec.get('xsi_prefix', 'xs')
                body += '<%s%s xmlns:%s="%s" xmlns:xsi="http://www.w3.org/2001/XMLSchema-instance" xsi:type="%s:%s">%s</%s%s>' % (
                    q, e['name'], pfx, XS, pfx, TYPES[xt][0].split(':')[1], v, q, e['name'])
                facts.append({'path': '/t:r/%s%s[%d]' % (q, e['name'], i + 1), 'type': xt, 'lex': v, 'kind': 'element',
                              'xsi': True})
                continue
            if 'attr' in e and rng.random() < 0.7:
                av = rng.choice(TYPES[e['attr']['type']][3]).strip() or '0'
                a = ' %s="%s"' % (e['attr']['name'], av)
                facts.append({'path': '/t:r/%s%s[%d]/@%s' % (q, e['name'], i + 1, e['attr']['name']),
                              'type': e['attr']['type'], 'lex': av, 'kind': 'attribute'})
            if e.get('nillable') and rng.random() < 0.5:
                body += '<%s%s%s xmlns:xsi="http://www.w3.org/2001/XMLSchema-instance" xsi:nil="true"/>' % (q, e['name'], a)
                facts.append({'path': '/t:r/%s%s[%d]' % (q, e['name'], i + 1), 'type': e['type'], 'lex': '', 'kind': 'element',
                              'nil': True, 'simple_content': 'attr' in e})
                continue
            body += '<%s%s%s>%s</%s%s>' % (q, e['name'], a, v, q, e['name'])
            facts.append({'path': '/t:r/%s%s[%d]' % (q, e['name'], i + 1), 'type': e['type'], 'lex': v, 'kind': 'element',
                          'simple_content': 'attr' in e})
    for g in spec.get('groups', ()):
        if rng.random() < 0.85:
            inner = ''
            for i in range(rng.randint(1, g['max'])):
                v = rng.choice(pool(g['type']))
                inner += '<%s%s>%s</%s%s>' % (q, g['child'], v, q, g['child'])
                facts.append({'path': '/t:r/%s%s/%s%s[%d]' % (q, g['name'], q, g['child'], i + 1), 'type': g['type'], 'lex': v,
                              'kind': 'element', 'nested': True})
            body += '<%s%s>%s</%s%s>' % (q, g['name'], inner, q, g['name'])
    return '<t:r xmlns:t="%s"%s>%s</t:r>' % (TNS, attrs, body), facts
