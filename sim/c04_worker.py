"""Launcher for one C04 interpreter run (PYTHONHASHSEED is set by the parent)."""
import os
import sys

sys.dont_write_bytecode = True
sys.path.insert(0, os.path.dirname(os.path.dirname(os.path.abspath(__file__))))
from sim.checks import c04  # noqa: E402

c04.worker_main(sys.argv[1:])
