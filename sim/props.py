"""Property registry: which arms decide which property, tiers, and evidence metadata."""
from types import SimpleNamespace as NS

from .checks import c19a, c19b, c19c, c15, c16, c16s, c05s, c05h, c03, c13s, c13g, c04, c20
from .refmodel import bitset as _bitset

REAL_COMMON = ['all of elementpath (imported from /repo working tree)', 'CPython re/decimal/json/expat',
               'lxml', 'xmlschema', 'stdlib locale.setlocale/getlocale/normalize (Python level)']
STUB_COMMON = ['OS locale database and setlocale/strcoll/strxfrm C primitives (SimLocale)',
               'threading.Lock for elementpath modules (SimLock, deadlock-detecting)',
               'urllib.request.urlopen / pathlib.Path.open (SimFS/SimNet)', 'wall clock (current_dt argument)',
               'thread scheduler (baton passing at sys.monitoring line events)']

PROPS = {}


def register(**kw):
    p = NS(**kw)
    PROPS[p.ID] = p
    return p


register(
    ID='C19', LEVEL='fault_enumeration',
    ARMS=[(c19a, 0.5), (c19b, 0.3), (c19c, 0.2)],
    TIERS={'quick': {'runs': 3000, 'wall_cap': 100, 'minimise_budget': 30},
           'thorough': {'runs': 90000, 'wall_cap': 900, 'minimise_budget': 120}},
    RULE='each run = one seeded history (2-30 operations) of collation evaluations, lazy-generator '
         'open/step/close/throw/drop/gc and injected setlocale failures under a per-run installed-locale set; '
         'non-trivial = the history acquired the collation lock at least once; distinct = distinct '
         '(operation-kind sequence, functions, installed set, initial locale)',
    REAL=REAL_COMMON, STUB=STUB_COMMON,
    EXPECTED_PROBES=['fault:setlocale-error', 'lock-contended'],
    ASSUMPTIONS=['locale orderings are those of the stub, not glibc', 'pre-emption granularity is a Python line'],
)

register(
    ID='C15', LEVEL='exploration',
    ARMS=[(c15, 1.0)],
    TIERS={'quick': {'runs': 24000, 'wall_cap': 100, 'minimise_budget': 30},
           'thorough': {'runs': 300000, 'wall_cap': 900, 'minimise_budget': 120}},
    RULE='each run = one seeded history (3-40 operations) of map:*/array:* functions, constructors and lookups '
         'over a pool of at most 10 aliasing map/array values (results re-enter the pool as the same objects); '
         'after every operation the result is compared with a persistent reference model and every pool member is '
         're-observed; non-trivial = at least 3 operations and 2 pool members; distinct = distinct operation-name sequence',
    REAL=REAL_COMMON, STUB=['none needed: the simulated dimension is the operation history and aliasing'],
    EXPECTED_PROBES=[],
    ASSUMPTIONS=['same-key relation of the model: numeric by exact value (NaN=NaN), string/anyURI/untypedAtomic by '
                 'code points, other types by type+value; map keys are compared by same-key class, not representation'],
)

register(
    ID='C16', LEVEL='exploration',
    ARMS=[(c16, 0.8), (c16s, 0.2)],
    TIERS={'quick': {'runs': 40000, 'wall_cap': 100, 'minimise_budget': 30, 'known_minimise_budget': 8},
           'thorough': {'runs': 500000, 'wall_cap': 900, 'minimise_budget': 120}},
    RULE='each run = one seeded history of operations on function items: typed random programs over the mini-language '
         '(inline functions capturing let/for variables, function expressions inside loops, function items in '
         'sequences/arrays/maps, named references, partial application, fold/for-each/filter/for-each-pair/apply/sort, '
         'bounded self-application), Selectors evaluated repeatedly under different external bindings, and Python-level '
         'calls on function items returned by earlier evaluations; oracle = reference interpreter with immutable '
         'closures; non-trivial = at least 8 AST nodes; distinct = distinct operation list',
    REAL=REAL_COMMON, STUB=['none needed: the simulated dimension is the call history on function items'],
    EXPECTED_PROBES=['risk-flag:multi-env', 'risk-flag:partial', 'risk-flag:param-shadow'],
    ASSUMPTIONS=['the reference interpreter implements XPath 3.1 semantics for exactly the generated constructs',
                 'programs are well-typed by construction; a program the interpreter rejects is only required to raise'],
)

register(
    ID='C05', LEVEL='exploration',
    ARMS=[(c05h, 0.6), (c05s, 0.4)],
    TIERS={'quick': {'runs': 7000, 'wall_cap': 100, 'minimise_budget': 30},
           'thorough': {'runs': 120000, 'wall_cap': 900, 'minimise_budget': 120}},
    RULE='arm c05h: each run = one seeded history (3-40 operations) of select / iter_select (opened, stepped, '
         'interleaved, closed, abandoned) / token.evaluate over shared Selectors, tokens, 1-3 documents (ElementTree, '
         'lxml, prebuilt node trees) and caller-owned variable values, with failing evaluations, clock jumps and '
         'implicit-timezone changes; every operation is compared with a clean-room evaluation forked from the current '
         'process and all inputs are snapshotted before/after. arm c05s: scoping programs over the mini-language judged '
         'by a reference interpreter. non-trivial = at least 3 evaluations or generator steps (c05h) / 8 AST nodes (c05s); '
         'distinct = distinct (operation shape, selector set) or operation list',
    REAL=REAL_COMMON, STUB=['wall clock: every context is built with current_dt=<simulated instant>; clock jumps are operations'],
    EXPECTED_PROBES=[],
    ASSUMPTIONS=['the comparator is a fresh parse on a fresh context in a child forked from the current process',
                 'identity-based values (generate-id) are compared by shape only'],
)

register(
    ID='C03', LEVEL='fault_enumeration',
    ARMS=[(c03, 1.0)],
    TIERS={'quick': {'runs': 3500, 'wall_cap': 100, 'minimise_budget': 30, 'run_timeout': 45},
           'thorough': {'runs': 45000, 'wall_cap': 900, 'minimise_budget': 120, 'run_timeout': 45}},
    RULE='each run = one seeded history (2-30 operations) on 1-3 pooled parser instances: parse of valid / mutated / '
         'random-Unicode / deep sources, parse interrupted by an asynchronous crash at the k-th line event, '
         'parse+evaluate (eager or lazy), I/O functions over a virtual filesystem/network with a per-resource fault, '
         'collation functions with injected setlocale failures, optionally under a reduced recursion limit; after '
         'every operation 3 probe expressions are parsed by the used instance, a fresh instance and compared with '
         'pristine-process references; non-trivial = the history contains a failed parse, an armed crash point or an '
         'I/O operation; distinct = distinct (operation shape, sources)',
    REAL=REAL_COMMON, STUB=STUB_COMMON,
    EXPECTED_PROBES=['parse-interrupted-by-crash', 'fault:async-crash', 'fault:io:enoent', 'fault:io:reset-midread',
                     'fault:setlocale-error'],
    ASSUMPTIONS=['step budgets count line events in elementpath files only; time inside C code never yields HANG',
                 'MemoryError and the injected crash exception are never counted as escapes',
                 'an injected setlocale failure never refuses a locale that was installed successfully before'],
)

register(
    ID='C13', LEVEL='exploration',
    ARMS=[(c13s, 0.7), (c13g, 0.3)],
    WARMUP=c13g.warmup,
    TIERS={'quick': {'runs': 1200, 'wall_cap': 100, 'minimise_budget': 30},
           'thorough': {'runs': 20000, 'wall_cap': 900, 'minimise_budget': 120}},
    RULE='arm c13s: each run = one seeded history (3-60 operations) on a pool of at most 6 UnicodeSubset / '
         'CharacterClass objects (add, discard, update, difference_update, |= -= &= ^=, | - & ^, complement, clear, '
         'copy, len/iter/reversed) with operands that are code points, ranges, strings, other pool members, the object '
         'itself or the shared objects returned by unicode_category/unicode_block, aimed at the overlap geometries of '
         'the current representation, plus invalid arguments; oracle = 0x110000-bit big-integer model. '
         'arm c13g: histories of install_unicode_data(version[, url]) over all installable versions with the download '
         'served by the simulated network (ENOENT, reset, timeout, HTTP errors, incomplete/torn reads), interleaved with '
         'translate_pattern / CharacterClass uses; exhaustive 0x110000-code-point comparison with unicodedata when the '
         'installed version is the interpreter\'s. non-trivial = at least 3 operations (c13s) / one install (c13g); '
         'distinct = distinct operation-name sequence',
    REAL=REAL_COMMON, STUB=['urllib.request.urlopen for install_unicode_data(url) (SimNet)'],
    EXPECTED_PROBES=['fault:io:reset-midread', 'fault:io:truncated', 'fault:io:enoent'],
    ASSUMPTIONS=['category model = unicodedata of the running interpreter (checked only when the installed version equals it)',
                 'the representation is only required to be sorted, disjoint and non-touching'],
)

register(
    ID='C04', LEVEL='exploration',
    ARMS=[(c04, 1.0)], DRIVER=c04.run_check,
    TIERS={'quick': {'hash_seeds': 48, 'items': 1500, 'wall_cap': 100},
           'thorough': {'hash_seeds': 600, 'items': 4000, 'wall_cap': 900}},
    RULE='each run = one fresh interpreter started with its own PYTHONHASHSEED (derived from VERIF_SEED) that builds '
         'the four parsers and processes the same VERIF_SEED-derived corpus of operator trees (rendered with exactly the '
         'parentheses the EBNF requires plus random redundant ones, in a canonical and a varied whitespace/comment '
         'layout) and non-associative chains; per item it records syntax tree, parse().tree/source, round-trip tree and '
         'value; across interpreters all records must be identical (tokenizer pattern text may differ). '
         'non-trivial/distinct = distinct per-item record digests in one interpreter',
    REAL=REAL_COMMON + ['CPython str hashing (one real interpreter per hash seed)'],
    STUB=['none: the hash seed is set through the real PYTHONHASHSEED seam'],
    EXPECTED_PROBES=[],
    ASSUMPTIONS=['operator tables transcribed from the W3C EBNF (XPath 1.0, 2.0, 3.0, 3.1); the arrow operator and '
                 'lookup are covered by the cross-seed and round-trip clauses only'],
)

register(
    ID='C20', LEVEL='exploration',
    ARMS=[(c20, 1.0)],
    TIERS={'quick': {'runs': 3000, 'wall_cap': 100, 'minimise_budget': 30},
           'thorough': {'runs': 30000, 'wall_cap': 900, 'minimise_budget': 120}},
    RULE='each run = one generated XSD schema (1-8 element declarations over built-in simple types, list, union, '
         'restriction, simple-content extension with typed attribute), a second schema for the same vocabulary, one '
         'instance valid against both (re-validated by xmlschema) and a seeded history (2-20 operations) that evaluates '
         'data()/instance-of/arithmetic/structural-path expressions on 1-3 reused trees (ElementTree, lxml, prebuilt node '
         'trees) with proxy A, proxy B or no schema, through select() or a schema-bound Selector; non-trivial = at least '
         '2 evaluations; distinct = distinct (tree form, schema, expression kind) sequence',
    REAL=REAL_COMMON, STUB=['none needed: the simulated dimension is the attach/detach/swap history on reused trees'],
    EXPECTED_PROBES=[],
    ASSUMPTIONS=['typed values are compared with xmlschema\'s decode() of the same lexical form, for types with an '
                 'unambiguous Python mapping', 'schemas with attribute value constraints (defaults) are not generated: '
                 'the engine adds attribute nodes for them, which is a data-model question no schedule can settle'],
)
