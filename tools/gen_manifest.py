#!/venv/bin/python
"""Regenerates MANIFEST.json from tools/manifest_data.py (single source, keeps it schema-valid)."""
import json, os, sys
here = os.path.dirname(os.path.abspath(__file__))
sys.path.insert(0, here)
import manifest_data as D

checks = []
for c in D.CHECKS:
    pid = c['id']
    checks.append({
        'property_id': pid,
        'quick_cmd': './check %s --tier quick' % pid,
        'thorough_cmd': './check %s --tier thorough' % pid,
        'evidence_file': 'evidence/%s.json' % pid,
        'replay_cmd_template': './check replay {path}',
        'engine': 'sim',
        'level_claimed': {'category': c['level'], 'text': c['text'], 'design_ref': c['design_ref']},
        'level_note': c['note'],
        'technique': c['technique'],
    })
m = {
    'version': 1,
    'setup_cmd': D.SETUP,
    'hooks': D.HOOKS,
    'engines': [{'name': 'sim', 'path': 'sim/', 'serves_properties': [c['id'] for c in D.CHECKS],
                 'kind_free_text': 'deterministic simulation with fault injection: seeded fork-per-run simulator '
                                   '(stub locale/lock/fs/net/clock/scheduler seams under real elementpath), '
                                   'history oracles, ddmin minimisation, replay files'}],
    'checks': checks,
    'notes': D.NOTES,
    'not_applicable': [{'property_id': k, 'reason': v} for k, v in D.NOT_APPLICABLE],
}
with open(os.path.join(os.path.dirname(here), 'MANIFEST.json'), 'w') as fp:
    json.dump(m, fp, indent=1)
try:
    import jsonschema
    jsonschema.validate(m, json.load(open('/root/.vp/MANIFEST.schema.json')))
    print('MANIFEST.json valid; %d checks, %d n/a' % (len(checks), len(m['not_applicable'])))
except ImportError:
    print('jsonschema not available; written without validation')
