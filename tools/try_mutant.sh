#!/bin/bash
# usage: try_mutant.sh <PROP> <k> [check args...]   confirm a sub-agent change and run the check against it
set -u
pid=$1; k=$2; shift 2
wt=${WT_PREFIX:-/tmp/mut_}$pid; m=$wt/mutants/$k
out=/verif/seeded/$pid-${OUT_TAG:-}$k
[ -f "$m/patch.diff" ] || { echo "no patch at $m"; exit 2; }
cd $wt && git checkout -q -- . 
demo_clean=$(cd $wt && PYTHONPATH=$wt timeout 120 /venv/bin/python $m/demo.py >/dev/null 2>&1; echo $?)
git -C $wt apply $m/patch.diff || { echo "patch does not apply in worktree"; exit 2; }
demo_mut=$(cd $wt && PYTHONPATH=$wt timeout 120 /venv/bin/python $m/demo.py >/tmp/demo_${pid}_$k.out 2>&1; echo $?)
base=$(timeout 900 /tmp/mut_tools/baseline_in.py $wt | tail -1)
git -C $wt checkout -q -- .
echo "demo pristine exit=$demo_clean mutated exit=$demo_mut baseline: $base"
# run the check against /repo with the change applied, undo straight afterwards
# (SCRATCH=1: against a scratch copy through VERIF_REPO instead, for when a background run is using /repo)
cd /verif && rm -rf replays/$pid
if [ "${SCRATCH:-0}" = 1 ]; then
  d=$(mktemp -d /tmp/mutrepo.XXXXXX); git -C /repo archive HEAD elementpath | tar -x -C $d
  (cd $d && patch -s -p1 < $m/patch.diff) || { echo "patch does not apply to the copy"; rm -rf $d; exit 2; }
  VERIF_REPO=$d timeout 1200 ./check ${CHECK_PROP:-$pid} --no-evidence "$@" > /tmp/chk_$pid-$k.out 2>&1; code=$?
  rm -rf $d
else
  git -C /repo apply $m/patch.diff || { echo "patch does not apply to /repo"; exit 2; }
  timeout 1200 ./check ${CHECK_PROP:-$pid} --no-evidence "$@" > /tmp/chk_$pid-$k.out 2>&1; code=$?
  git -C /repo checkout -q -- .
  git -C /repo status --short | head -3
fi
grep -c "^VIOLATION" /tmp/chk_$pid-$k.out | sed 's/^/violation lines: /'
grep "^  class" /tmp/chk_$pid-$k.out | cut -c1-260 | head -5
tail -1 /tmp/chk_$pid-$k.out | cut -c1-200
echo "check exit=$code"
mkdir -p $out && cp $m/patch.diff $m/demo.py $out/ && cp $m/notes.md $out/notes.md 2>/dev/null
cat > $out/meta.json <<META
{"property": "$pid", "repo_head": "$(git -C /repo rev-parse --short HEAD)", "source": "sub-agent ${OUT_TAG:-r1} $pid change $k", "demo_exit_pristine": $demo_clean, "demo_exit_with_change": $demo_mut,
 "baseline_with_change": "$base", "check_cmd": "./check ${CHECK_PROP:-$pid} --no-evidence $*", "check_exit_with_change": $code,
 "violations_reported": $(grep -c "^VIOLATION" /tmp/chk_$pid-$k.out)}
META
