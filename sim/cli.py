"""Single CLI entry: check <ID> [--tier quick|thorough] | replay <file> | selftest | digest <ID>."""
import os
import sys


def _reexec_with_hashseed():
    want = os.environ.get('VERIF_HASHSEED', '0')
    if os.environ.get('PYTHONHASHSEED') != want:
        env = dict(os.environ, PYTHONHASHSEED=want)
        os.execve(sys.executable, [sys.executable] + sys.argv, env)


def main():
    _reexec_with_hashseed()
    here = os.path.dirname(os.path.dirname(os.path.abspath(__file__)))
    if here not in sys.path:
        sys.path.insert(0, here)
    repo = os.path.realpath(os.environ.get('VERIF_REPO', '/repo'))
    sys.path.insert(0, repo)
    sys.dont_write_bytecode = True

    from sim import world
    world.install()          # BEFORE importing elementpath
    import elementpath
    assert os.path.realpath(elementpath.__file__).startswith(repo + os.sep), \
        'elementpath imported from %s, expected %s' % (elementpath.__file__, repo)
    import lxml.etree        # noqa: F401
    import xmlschema         # noqa: F401
    import elementpath.xpath3    # noqa: F401

    import argparse
    from sim import runner, props

    ap = argparse.ArgumentParser(prog='check')
    ap.add_argument('what')
    ap.add_argument('arg', nargs='?')
    ap.add_argument('--tier', default=os.environ.get('VERIF_TIER', 'quick'), choices=['quick', 'thorough'])
    ap.add_argument('--runs', type=int)
    ap.add_argument('--workers', type=int)
    ap.add_argument('--arm')
    ap.add_argument('--wall', type=float)
    ap.add_argument('--start', type=int, default=0)
    ap.add_argument('--no-evidence', action='store_true')
    ap.add_argument('--minimise-budget', type=float)
    args = ap.parse_args()
    seed = int(os.environ.get('VERIF_SEED', '0') or 0)

    if args.what == 'replay':
        sys.exit(runner.replay_file(args.arg, props.PROPS))
    if args.what == 'selftest':
        from sim import selftest
        sys.exit(selftest.main(args))
    if args.what == 'digest':
        prop = props.PROPS[args.arg]
        if getattr(prop, 'WARMUP', None):
            prop.WARMUP()
        import json
        out = {}
        for res in runner.run_pool(prop, seed, args.runs or 32, args.tier, args.workers or 4, 600,
                                   only_arm=args.arm, start=args.start):
            out[res['i']] = res.get('digest') or ('ERR:' + str(res.get('harness_error'))[-200:])
        print(json.dumps(out, sort_keys=True))
        sys.exit(0)
    prop = props.PROPS[args.what]
    if getattr(prop, 'DRIVER', None):
        code, _ = prop.DRIVER(prop, args.tier, seed, nruns=args.runs, workers=args.workers, wall_cap=args.wall,
                              write_evidence=not args.no_evidence)
        sys.exit(code)
    code, _ = runner.run_check(prop, args.tier, seed, nruns=args.runs, workers=args.workers, wall_cap=args.wall,
                               only_arm=args.arm, write_evidence=not args.no_evidence,
                               minimise_budget=args.minimise_budget)
    sys.exit(code)


if __name__ == '__main__':
    main()
