"""
C13 arm (s): histories of mutating operations on UnicodeSubset / CharacterClass objects against a
big-integer bitset model; operands alias each other (other pool members, self, the shared objects
handed out by unicode_category()/unicode_block()); invalid arguments are the fault arm.

After every operation, for every object in the pool: membership equals the model on all range
boundaries +-1 and a seeded sample; .codepoints is sorted, non-overlapping and non-touching; an object
rebuilt from the model compares == (extensional equality); operands of non-in-place operators are
unchanged; at the end the global category/block tables are unchanged (no aliasing leak).
"""
import re
import hashlib
import random

from ..refmodel import bitset as B

NAME = 'c13s'

CATS = ['Lu', 'Ll', 'Nd', 'Zs', 'P', 'L', 'Sm', 'Cc', 'Mn', 'N']
BLOCKS = ['BasicLatin', 'Greek', 'Cyrillic', 'Latin-1Supplement', 'Arrows']
SPECIAL = set(map(ord, '\\-^[]|.?*+{}()'))


# ---- generation (runs the model to aim operations at interesting geometries) ------------------------------

def pick_cp(rng, m):
    ivs = B.intervals(m)
    x = rng.random()
    if ivs and x < 0.7:
        a, b = rng.choice(ivs)
        return max(0, min(B.MAXCP, rng.choice([a - 2, a - 1, a, a + 1, b - 2, b - 1, b, b + 1, (a + b) // 2])))
    if x < 0.8:
        return rng.choice([0, 1, B.MAXCP, B.MAXCP - 1, 0xD7FF, 0xE000, 0xFFFF, 0x10000])
    return rng.randint(0, 300) if rng.random() < 0.7 else rng.randint(0, B.MAXCP)


def pick_range(rng, m):
    ivs = B.intervals(m)
    if ivs and rng.random() < 0.75:
        i = rng.randrange(len(ivs))
        j = min(len(ivs) - 1, i + rng.choice([0, 0, 1, 2, 3]))
        a = ivs[i][0] + rng.choice([-2, -1, 0, 1])
        b = ivs[j][1] + rng.choice([-1, 0, 1, 2])
        a = max(0, min(B.MAXCP, a))
        b = max(a + 1, min(B.MAXCP + 1, b))
        return [a, b]
    a = pick_cp(rng, m)
    return [a, min(B.MAXCP + 1, a + rng.choice([1, 2, 3, 10, 100, 5000]))]


def pick_value(rng, m):
    return pick_cp(rng, m) if rng.random() < 0.5 else pick_range(rng, m)


def invalid_value(rng):
    return rng.choice([B.MAXCP + 1, -1, [5, 5], [9, 3], [0, B.MAXCP + 2], [-3, 4], 1 << 40])


def charset_string(rng):
    """(text, kind) for UnicodeSubset string arguments: plain characters and a-b ranges."""
    parts = []
    for _ in range(rng.choice([1, 2, 3])):
        if rng.random() < 0.5:
            # also ranges that start with a character that is special in regular expressions ( ( ) * + . ? { | } )
            a = rng.choice([0x30, 0x41, 0x61, 0x3b1, 0x4e00, 0x30, 0x41, 0x61, 0x28, 0x29, 0x2a, 0x2b, 0x2e, 0x3f, 0x7b, 0x7c])
            b = a + rng.choice([0, 0, 1, 2, 3, 5, 8, 13, 20])      # also ranges of one code point ('x-x')
            if b in (0x2d, 0x5c, 0x5b, 0x5d):
                b += 1
            parts.append(chr(a) + '-' + chr(b))
        else:
            cp = rng.choice([0x30, 0x41, 0x5a, 0x61, 0x7a, 0xe9, 0x3b1, 0x1f600, 0x20, 0x5f, 0x28, 0x2b, 0x2e, 0x7c, 0x7d])
            parts.append(chr(cp))
    return ''.join(parts)


def parse_charset(s):
    """Model of the plain character-set syntax used above."""
    m = 0
    i = 0
    while i < len(s):
        if i + 2 < len(s) and s[i + 1] == '-':
            m |= B.rng_mask(ord(s[i]), ord(s[i + 2]) + 1)
            i += 3
        else:
            m |= 1 << ord(s[i])
            i += 1
    return m


US_OPS = ['add', 'add', 'add', 'discard', 'discard', 'update', 'difference_update', 'ior', 'isub', 'iand', 'ixor',
          'or', 'sub', 'and', 'xor', 'complement', 'copy', 'clear', 'new', 'observe', 'add-invalid', 'shared-copy', 'rsub']
CC_OPS = ['cc-new', 'cc-add', 'cc-add', 'cc-discard', 'cc-complement', 'cc-isub', 'cc-sub', 'cc-copy', 'cc-clear',
          'cc-observe', 'cc-isub-text']
CC_ESCAPES = ['\\s', '\\S', '\\d', '\\D', '\\w', '\\W', '\\n', '\\t', '\\-', '\\\\', '\\p{Lu}', '\\P{Lu}', '\\p{Nd}',
              '\\P{Zs}', '\\p{IsBasicLatin}', '\\P{IsGreek}', '\\.', '\\^']


def cc_charset(rng):
    parts = []
    for _ in range(rng.choice([1, 1, 2, 3])):
        x = rng.random()
        if x < 0.35:
            parts.append(rng.choice(CC_ESCAPES))
        elif x < 0.6:
            a = rng.choice([0x30, 0x41, 0x61, 0x3b1])
            parts.append(chr(a) + '-' + chr(a + rng.randint(1, 20)))
        else:
            parts.append(chr(rng.choice([0x30, 0x41, 0x5a, 0x61, 0x7a, 0xe9, 0x3b1, 0x1f600, 0x20, 0x5f])))
    return ''.join(parts)


def gen_case(rng, tier):
    thorough = tier == 'thorough'
    nops = rng.randint(3, 60 if thorough else 25)
    use_cc = rng.random() < 0.4
    models = []       # ('us'|'cc', bitset)
    ops = []

    def new_us():
        if rng.random() < 0.5:
            vals = [pick_value(rng, 0) for _ in range(rng.choice([0, 1, 2, 4, 8]))]
            op = {'op': 'new', 'vals': vals}
            if rng.random() < 0.15:
                op['raw'] = True
        else:
            op = {'op': 'new', 'text': charset_string(rng)}
        return op

    for _ in range(nops):
        us_idx = [i for i, (k, _) in enumerate(models) if k == 'us']
        cc_idx = [i for i, (k, _) in enumerate(models) if k == 'cc']
        if not us_idx or (len(models) < 6 and rng.random() < 0.08):
            op = new_us()
        elif use_cc and rng.random() < 0.4:
            name = rng.choice(CC_OPS)
            if not cc_idx or (name == 'cc-new' and len(models) < 6):
                op = {'op': 'cc-new', 'text': cc_charset(rng) if rng.random() < 0.8 else ''}
            elif name in ('cc-add', 'cc-discard'):
                op = {'op': name, 'obj': rng.choice(cc_idx),
                      'text': cc_charset(rng) if rng.random() < 0.8 else None, 'cp': rng.choice([0x41, 0x20, 0x3b1])}
            elif name in ('cc-isub', 'cc-sub'):
                op = {'op': name, 'obj': rng.choice(cc_idx), 'other': rng.choice(cc_idx)}
            elif name == 'cc-isub-text':
                # subtraction of a new class without negative part (plain characters and ranges)
                op = {'op': name, 'obj': rng.choice(cc_idx),
                      'text': rng.choice(['0-9', '3', '0', '5-7', 'A', 'A-F', 'a-z', 'a', 'α-ω', '0-9A-Za-z', 'E', 'e-k'])}
            else:
                op = {'op': name if name != 'cc-new' else 'cc-observe', 'obj': rng.choice(cc_idx)}
        else:
            name = rng.choice(US_OPS)
            i = rng.choice(us_idx)
            m = models[i][1]
            if name in ('add', 'discard'):
                op = {'op': name, 'obj': i, 'val': pick_value(rng, m)}
            elif name == 'add-invalid':
                op = {'op': rng.choice(['add', 'discard', 'update']), 'obj': i, 'invalid': True}
                if op['op'] == 'update':
                    op['vals'] = [pick_value(rng, m), invalid_value(rng), pick_value(rng, m)]
                else:
                    op['val'] = invalid_value(rng)
            elif name in ('update', 'difference_update'):
                small = [j for j in us_idx if B.popcount(models[j][1]) <= 3000]
                if small and rng.random() < 0.3:
                    # an iterable over another member of the pool, or a live one over the receiver itself
                    op = {'op': name, 'obj': i, 'other': i if (i in small and rng.random() < 0.6) else rng.choice(small),
                          'wrap': rng.choice(['gen', 'iter', 'list', 'filter', 'cp-tuple', 'cp-gen', 'cp-tuple'])}
                elif rng.random() < 0.3:
                    op = {'op': name, 'obj': i, 'text': charset_string(rng)}
                else:
                    op = {'op': name, 'obj': i, 'vals': [pick_value(rng, m) for _ in range(rng.choice([1, 2, 3, 5]))]}
            elif name == 'rsub':
                small = [j for j in us_idx if B.popcount(models[j][1]) <= 3000]
                if small:
                    op = {'op': 'rsub', 'obj': i, 'other': rng.choice(small), 'wrap': rng.choice(['cp-tuple', 'cp-tuple', 'list'])}
                else:
                    op = {'op': 'observe', 'obj': i}
            elif name in ('ior', 'isub', 'iand', 'ixor', 'or', 'sub', 'and', 'xor'):
                x = rng.random()
                elementwise = name in ('iand', 'ixor', 'and', 'xor')
                if elementwise and B.popcount(m) > 3000:
                    # these operators walk their operands code point by code point: keep them small
                    name = {'iand': 'isub', 'ixor': 'ior', 'and': 'sub', 'xor': 'or'}[name]
                    elementwise = False
                if elementwise:
                    small = [j for j in us_idx if B.popcount(models[j][1]) <= 3000]
                    x = rng.random() * 0.55 if small else 0.7 + rng.random() * 0.3
                    us_idx = small or us_idx
                    if 0.55 <= x < 0.7:
                        x = 0.9
                if x < 0.55:
                    op = {'op': name, 'obj': i, 'other': rng.choice(us_idx)}        # may be itself
                    if rng.random() < 0.3:
                        # the operand is a tuple / generator of the other subset's entries (code points and ranges)
                        op['wrap'] = rng.choice(['cp-tuple', 'cp-gen'])
                elif x < 0.7:
                    op = {'op': name, 'obj': i, 'shared': rng.choice(['cat:' + c for c in CATS] + ['blk:' + b for b in BLOCKS])}
                elif x < 0.85:
                    op = {'op': name, 'obj': i, 'vals': [pick_value(rng, m) for _ in range(rng.choice([1, 2, 4]))]}
                else:
                    op = {'op': name, 'obj': i, 'text': charset_string(rng)}
            elif name == 'shared-copy':
                op = {'op': 'shared-copy', 'shared': rng.choice(['cat:' + c for c in CATS] + ['blk:' + b for b in BLOCKS])}
            elif name == 'new':
                op = new_us()
            else:
                op = {'op': name, 'obj': i}
        ops.append(op)
        apply_model(op, models)
    return {'config': {}, 'ops': ops}


# ---- the model --------------------------------------------------------------------------------------------

def shared_bits(name):
    """Model of the shared objects: categories from unicodedata; blocks are taken from the engine at run
    start (their tables are checked by arm c13g), so here only aliasing is judged."""
    kind, n = name.split(':')
    if kind == 'cat':
        return B.category_bits()[n]
    return None


def vals_mask(vals):
    m = 0
    for v in vals:
        if isinstance(v, int):
            if not 0 <= v <= B.MAXCP:
                raise ValueError(v)
            m |= 1 << v
        else:
            if not (0 <= v[0] < v[1] <= B.MAXCP + 1):
                raise ValueError(v)
            m |= B.rng_mask(v[0], v[1])
    return m


def cc_parse(text, block_bits):
    """Model of CharacterClass charset syntax for the generated subset: returns a list of
    ('pos', bits) / ('neg', bits) in order (neg = the complement of bits is meant)."""
    import re
    out = []
    parts = re.split(r'(\\[nrt|.\-^?*+{}()\[\]\\sSdDwW]|\\[pP]\{[A-Za-z0-9\-]+\})', text)
    cats = B.category_bits()
    for part in parts:
        if not part:
            continue
        if part in ('\\s', '\\S'):
            bits = sum(1 << ord(c) for c in ' \t\n\r')
            out.append(('pos' if part[1] == 's' else 'neg', bits))
        elif part in ('\\d', '\\D'):
            out.append(('pos' if part[1] == 'd' else 'neg', cats['Nd']))
        elif part in ('\\w', '\\W'):
            bits = cats['L'] | cats['M'] | cats['N'] | cats['S']
            out.append(('pos' if part[1] == 'w' else 'neg', bits))
        elif part.startswith('\\p') or part.startswith('\\P'):
            name = part[3:-1]
            if name.startswith('Is'):
                bits = block_bits.get(name[2:], 0)
            else:
                bits = cats[name]
            out.append(('pos' if part[1] == 'p' else 'neg', bits))
        elif part.startswith('\\') and len(part) == 2:
            ch = {'n': '\n', 'r': '\r', 't': '\t'}.get(part[1], part[1])
            out.append(('pos', 1 << ord(ch)))
        else:
            out.append(('pos', parse_charset(part)))
    return out


BLOCK_BITS = {}


def apply_model(op, models):
    """Applies op to the list of (kind, bits); returns 'error' when the model rejects the arguments."""
    name = op['op']
    get = lambda i: models[i % len(models)][1]     # noqa: E731

    def setm(i, bits):
        i = i % len(models)
        models[i] = (models[i][0], bits)

    def operand():
        if 'other' in op:
            if op.get('wrap') == 'filter':
                return sum(1 << c for a, b in B.intervals(get(op['other'])) for c in range(a, b) if c % 2 == 0)
            return get(op['other'])
        if 'shared' in op:
            b = shared_bits(op['shared'])
            return b if b is not None else BLOCK_BITS.get(op['shared'].split(':')[1], 0)
        if 'vals' in op:
            return vals_mask(op['vals'])
        return parse_charset(op['text'])

    try:
        if name == 'new':
            models.append(('us', vals_mask(op['vals']) if 'vals' in op else parse_charset(op['text'])))
        elif name == 'shared-copy':
            b = shared_bits(op['shared'])
            models.append(('us', b if b is not None else BLOCK_BITS.get(op['shared'].split(':')[1], 0)))
        elif name in ('add', 'discard'):
            bits = vals_mask([op['val']])
            setm(op['obj'], get(op['obj']) | bits if name == 'add' else get(op['obj']) & ~bits)
        elif name in ('update', 'ior'):
            setm(op['obj'], get(op['obj']) | operand())
        elif name in ('difference_update', 'isub'):
            setm(op['obj'], get(op['obj']) & ~operand())
        elif name == 'iand':
            setm(op['obj'], get(op['obj']) & operand())
        elif name == 'ixor':
            setm(op['obj'], get(op['obj']) ^ operand())
        elif name == 'or':
            models.append(('us', get(op['obj']) | operand()))
        elif name == 'sub':
            models.append(('us', get(op['obj']) & ~operand()))
        elif name == 'rsub':
            models.append(('us', operand() & ~get(op['obj'])))
        elif name == 'and':
            models.append(('us', get(op['obj']) & operand()))
        elif name == 'xor':
            models.append(('us', get(op['obj']) ^ operand()))
        elif name == 'complement':
            models.append(('us', B.FULL & ~get(op['obj'])))
        elif name == 'copy':
            models.append(('us', get(op['obj'])))
        elif name == 'clear':
            setm(op['obj'], 0)
        elif name == 'cc-new':
            bits = 0
            for sign, b in cc_parse(op['text'], BLOCK_BITS):
                bits |= b if sign == 'pos' else B.FULL & ~b
            models.append(('cc', bits))
        elif name in ('cc-add', 'cc-discard'):
            bits = get(op['obj'])
            text = op['text'] if op.get('text') is not None else chr(op['cp'])
            for sign, b in cc_parse(text, BLOCK_BITS):
                b = b if sign == 'pos' else B.FULL & ~b
                bits = bits | b if name == 'cc-add' else bits & ~b
            setm(op['obj'], bits)
        elif name == 'cc-complement':
            setm(op['obj'], B.FULL & ~get(op['obj']))
        elif name == 'cc-isub':
            setm(op['obj'], get(op['obj']) & ~get(op['other']))
        elif name == 'cc-isub-text':
            bits = get(op['obj'])
            for _sign, b in cc_parse(op['text'], BLOCK_BITS):
                bits &= ~b
            setm(op['obj'], bits)
        elif name == 'cc-sub':
            models.append(('cc', get(op['obj']) & ~get(op['other'])))
        elif name == 'cc-copy':
            models.append(('cc', get(op['obj'])))
        elif name == 'cc-clear':
            setm(op['obj'], 0)
    except ValueError:
        return 'error'
    return 'ok'


# ---- execution ----------------------------------------------------------------------------------------------

def canonical_problems(cps):
    """Problems of a .codepoints list w.r.t. the promised canonical form."""
    prev_end = None
    for cp in cps:
        if isinstance(cp, int):
            a, b = cp, cp + 1
        else:
            try:
                a, b = cp
            except (TypeError, ValueError):
                return 'malformed entry %r' % (cp,)
            if not (isinstance(a, int) and isinstance(b, int)) or a >= b:
                return 'empty or reversed range %r' % (cp,)
        if a < 0 or b > B.MAXCP + 1:
            return 'out of range %r' % (cp,)
        if prev_end is not None:
            if a < prev_end:
                return 'unsorted or overlapping at %r' % (cp,)
            if a == prev_end:
                return 'touching ranges not merged at %r' % (cp,)
        prev_end = b
    return None


def run_case(case, world):
    from elementpath.regex import UnicodeSubset, CharacterClass, unicode_category, unicode_block, RegexError
    from elementpath.regex.unicode_subsets import unicode_version
    import unicodedata
    violations = []
    stats = {'ops': 0, 'invalid_ops': 0, 'membership_checks': 0, 'full_equalities': 0, 'objects': 0}
    shape = []
    if unicode_version() != unicodedata.unidata_version:
        return {'violations': [], 'stats': stats, 'nontrivial': [], 'harness_error': 'installed Unicode version differs'}
    for b in BLOCKS:
        BLOCK_BITS[b] = B.from_codepoints(unicode_block(b).codepoints)
    shared_digest = {}
    for c in CATS:
        shared_digest['cat:' + c] = repr(unicode_category(c).codepoints)
    for b in BLOCKS:
        shared_digest['blk:' + b] = repr(unicode_block(b).codepoints)

    def shared_obj(name):
        kind, n = name.split(':')
        return unicode_category(n) if kind == 'cat' else unicode_block(n)

    models = []
    objs = []
    rng = random.Random(1234)

    def violate(cls, signature, detail, features=()):
        violations.append({'cls': cls, 'signature': signature, 'detail': detail, 'features': sorted(set(features))})

    def engine_bits(o):
        if isinstance(o, UnicodeSubset):
            return B.from_codepoints(o.codepoints)
        pos = B.from_codepoints(o.positive.codepoints)
        neg = B.from_codepoints(o.negative.codepoints)
        return pos | (B.FULL & ~neg if neg else 0)

    def describe(bits):
        ivs = B.intervals(bits)
        return '%d intervals %r%s' % (len(ivs), ivs[:6], '...' if len(ivs) > 6 else '')

    def check_all(opname, feats, touched):
        for i, (o, (kind, m)) in enumerate(zip(objs, models)):
            subsets = [o] if kind == 'us' else [o.positive, o.negative]
            for s in subsets:
                prob = canonical_problems(s.codepoints)
                if prob:
                    violate('NOT_CANONICAL', 'not-canonical:%s:%s' % (opname, prob.split(' at ')[0].split(' %r')[0]),
                            'after %s object %d has codepoints %r: %s' % (opname, i, s.codepoints[:12], prob), feats)
                    s.codepoints = B.to_codepoints(B.from_codepoints(s.codepoints))     # resync representation
            eb = engine_bits(o)
            if eb != m:
                diff = eb ^ m
                if i in touched:
                    violate('SET_MISMATCH', 'set-mismatch:%s' % opname,
                            'after %s object %d (%s) is %s, model %s; differs on %s' % (
                                opname, i, kind, describe(eb), describe(m), describe(diff)), feats)
                else:
                    # an object that was neither the target nor the result of the operation changed: aliasing
                    violate('ALIASING', 'untouched-object-changed:%s' % opname,
                            '%s changed object %d (%s), which it does not involve, from %s to %s' % (
                                opname, i, kind, describe(m), describe(eb)), feats)
                models[i] = (kind, eb)
                m = eb
            # membership through the public API on boundaries and a sample
            pts = list(B.boundary_points(m, 12)) + [rng.randint(0, B.MAXCP) for _ in range(6)]
            if kind != 'us' and i not in touched and B.popcount(B.from_codepoints(o.negative.codepoints)) > 20000:
                # every membership test of a class with a negative part walks that part code point by code point
                # (its truth value is its length): untouched objects with a large one get a smaller sample
                pts = pts[:3] + pts[-2:]
            for p in pts:
                stats['membership_checks'] += 1
                if (p in o) != bool(m >> p & 1):
                    violate('SET_MISMATCH', 'membership:%s' % opname,
                            '%d in object %d gives %r, representation says %r' % (p, i, p in o, bool(m >> p & 1)), feats)
                    break
            if kind == 'us' and B.popcount(m) <= 5000 and not any(v['cls'] == 'NOT_CANONICAL' for v in violations[-2:]):
                # size and truth value through the public API, for every object after every operation
                n_ = B.popcount(m)
                if len(o) != n_ or bool(o) != bool(n_):
                    violate('SET_MISMATCH', 'len:%s' % opname, 'after %s len(object %d) is %d and bool() is %r, the set has %d '
                            'code points' % (opname, i, len(o), bool(o), n_), feats)
            if kind == 'us' and i in touched:
                stats['full_equalities'] += 1
                rebuilt = UnicodeSubset(B.to_codepoints(m))
                if not (o == rebuilt):
                    feats = list(feats) + (['representations-differ'] if o.codepoints != rebuilt.codepoints
                                           else ['same-representation'])
                    violate('NOT_EXTENSIONAL', 'equality-not-extensional:%s' % opname,
                            'object %d == a subset rebuilt from the same code points is False: %r vs %r' % (
                                i, o.codepoints[:10], rebuilt.codepoints[:10]), feats)

    for idx, op in enumerate(case['ops']):
        stats['ops'] += 1
        name = op['op']
        feats = ['op:' + name]
        if op.get('other') is not None and models and op.get('obj') is not None \
                and op['other'] % len(models) == op['obj'] % len(models):
            feats.append('operand-is-self')
        if 'shared' in op:
            feats.append('operand-is-shared-table-object')
        if 'vals' in op and op['op'] != 'new':
            try:
                if B.to_codepoints(vals_mask(op['vals'])) != [v if isinstance(v, int) else tuple(v) for v in op['vals']]:
                    feats.append('operand-raw-list-not-canonical')
            except ValueError:
                pass
        if not objs and name not in ('new', 'cc-new', 'shared-copy'):
            continue
        if name.startswith('cc-') and name != 'cc-new':
            if models[op['obj'] % len(models)][0] != 'cc':
                continue
            if 'other' in op and models[op['other'] % len(models)][0] != 'cc':
                continue
        elif not name.startswith('cc-') and 'obj' in op:
            if models[op['obj'] % len(models)][0] != 'us':
                continue
            if 'other' in op and models[op['other'] % len(models)][0] != 'us':
                continue
        if name.startswith('cc-') and name != 'cc-new' and objs:
            involved = [objs[op['obj'] % len(objs)]]
            if 'other' in op:
                involved.append(objs[op['other'] % len(objs)])
            if any(getattr(x, 'negative', None) for x in involved):
                feats.append('cc-negative-part-involved')
            if name == 'cc-isub-text' or name in ('cc-isub', 'cc-sub') and len(involved) == 2 \
                    and not getattr(involved[1], 'negative', None):
                # the one subtraction the two-part representation gets right: a subtrahend without negative part
                feats.append('cc-subtrahend-without-negative-part')
        if name.startswith('cc-') and isinstance(op.get('text'), str):
            if any(esc in op['text'] for esc in CC_ESCAPES if esc[1].isupper()):
                feats.append('cc-negative-part-involved')
        before_models = list(models)
        verdict = apply_model(op, models)
        world.event(('op', idx, name))
        shape.append(name)
        o = objs[op['obj'] % len(objs)] if 'obj' in op and objs else None
        touched = set()
        if 'obj' in op and objs:
            touched.add(op['obj'] % len(objs))

        def operand():
            if 'other' in op:
                ob = objs[op['other'] % len(objs)]
                w = op.get('wrap')
                if w == 'gen':
                    return (x for x in ob)
                if w == 'iter':
                    return iter(ob)
                if w == 'list':
                    return list(ob)
                if w == 'filter':
                    return (x for x in ob if x % 2 == 0)
                if w == 'cp-tuple' and hasattr(ob, 'codepoints'):
                    return tuple(ob.codepoints)         # the entries themselves: code points and (start, stop) ranges
                if w == 'cp-gen' and hasattr(ob, 'codepoints'):
                    return (x for x in list(ob.codepoints))
                return ob
            if 'shared' in op:
                return shared_obj(op['shared'])
            if 'vals' in op:
                return [v if isinstance(v, int) else tuple(v) for v in op['vals']]
            return op['text']
        try:
            if name == 'new':
                if 'vals' in op and not op.get('raw'):
                    # an initially arbitrary *subset*: the list handed to the constructor is canonical
                    objs.append(UnicodeSubset(B.to_codepoints(vals_mask(op['vals']))))
                elif 'vals' in op:
                    feats.append('constructor-given-raw-list')
                    objs.append(UnicodeSubset([v if isinstance(v, int) else tuple(v) for v in op['vals']]))
                else:
                    objs.append(UnicodeSubset(op['text']))
            elif name == 'shared-copy':
                objs.append(shared_obj(op['shared']).copy())
            elif name in ('add', 'discard'):
                v = op['val']
                getattr(o, name)(v if isinstance(v, int) else tuple(v))
            elif name == 'update':
                o.update(operand())
            elif name == 'difference_update':
                o.difference_update(operand())
            elif name == 'ior':
                o |= operand()
            elif name == 'isub':
                o -= operand()
            elif name == 'iand':
                o &= operand()
            elif name == 'ixor':
                o ^= operand()
            elif name == 'or':
                objs.append(o | operand())
            elif name == 'sub':
                objs.append(o - operand())
            elif name == 'rsub':
                objs.append(operand() - o)      # the reflected operator: a tuple of entries minus the subset
            elif name == 'and':
                objs.append(o & operand())
            elif name == 'xor':
                objs.append(o ^ operand())
            elif name == 'complement':
                objs.append(UnicodeSubset(list(o.complement())))
            elif name == 'copy':
                objs.append(o.copy())
            elif name == 'clear':
                o.clear()
            elif name == 'observe':
                m = models[op['obj'] % len(models)][1]
                n = B.popcount(m)
                if n < 20000:
                    if len(o) != n:
                        violate('SET_MISMATCH', 'len', 'len() gives %d, the set has %d code points' % (len(o), n), feats)
                    it = list(o)
                    if it != sorted(it) or sum(1 << c for c in it) != m:
                        violate('SET_MISMATCH', 'iter', 'iteration does not enumerate the set in order', feats)
                    rv = list(reversed(o))
                    if rv != it[::-1]:
                        violate('SET_MISMATCH', 'reversed', 'reversed() is not the reverse of iteration: %r vs %r' % (
                            rv[:8], it[::-1][:8]), feats)
                if len(B.intervals(m)) <= 40 and type(o).__name__ == 'UnicodeSubset':
                    # the character-class text of the subset (what translate_pattern puts between brackets) denotes
                    # the same set: parsed back by UnicodeSubset and compiled by re
                    text = str(o)
                    try:
                        back = B.from_codepoints(list(UnicodeSubset(text).codepoints)) if hasattr(o, 'codepoints') else \
                            sum(1 << c for c in UnicodeSubset(text))
                    except Exception as e:
                        back = repr(e)
                    if back != m:
                        violate('SET_MISMATCH', 'text', 'str() gives %r, which UnicodeSubset() reads as %s' % (
                            text[:80], B.intervals(back)[:6] if isinstance(back, int) else back), feats)
                    else:
                        import re as _re
                        try:
                            pat = _re.compile('[%s]' % text) if text else None
                            pts = sorted(p_ for p_ in B.boundary_points(m, 40) if p_ < 0x110000 and not 0xd800 <= p_ <= 0xdfff)
                            wrong = [p_ for p_ in pts if ((pat.fullmatch(chr(p_)) is not None) if pat else False) != bool((m >> p_) & 1)]
                        except Exception as e:
                            wrong = [repr(e)]
                        if wrong:
                            violate('SET_MISMATCH', 'text-regex', 'the class [%s] compiled by re disagrees with the set on %r' % (
                                text[:80], wrong[:6]), feats)
            elif name == 'cc-new':
                if re.search(r'\\-\\', op['text']):
                    feats.append('escaped-hyphen-before-escape')
                objs.append(CharacterClass(op['text']))
            elif name in ('cc-add', 'cc-discard'):
                arg = op['text'] if op.get('text') is not None else op['cp']
                if isinstance(arg, str) and re.search(r'\\-\\', arg):
                    feats.append('escaped-hyphen-before-escape')
                getattr(o, name[3:])(arg)
                feats.append('charset:' + ('escape' if isinstance(arg, str) and '\\' in arg else 'plain'))
                if isinstance(arg, str):
                    for esc in CC_ESCAPES:
                        if esc in arg and esc[1].isupper():
                            feats.append('negated-escape')
            elif name == 'cc-complement':
                o.complement()
            elif name == 'cc-isub':
                o -= objs[op['other'] % len(objs)]
            elif name == 'cc-isub-text':
                o -= CharacterClass(op['text'])
            elif name == 'cc-sub':
                objs.append(o - objs[op['other'] % len(objs)])
                touched.add(len(objs) - 1)
            elif name == 'cc-copy':
                import copy as _copy
                objs.append(_copy.copy(o))
                if objs[-1] is o:
                    violate('ALIASING', 'copy-returns-self', 'copy.copy(CharacterClass) returned the same object', feats)
                    objs[-1] = CharacterClass()
                    objs[-1].positive = UnicodeSubset(o.positive)
                    objs[-1].negative = UnicodeSubset(o.negative)
            elif name == 'cc-clear':
                o.clear()
            elif name == 'cc-observe':
                m = models[op['obj'] % len(models)][1]
                if len(o) != B.popcount(m):
                    violate('SET_MISMATCH', 'cc-len', 'len() gives %d, the set has %d code points' % (
                        len(o), B.popcount(m)), feats)
            if verdict == 'error':
                stats['invalid_ops'] += 1
                world.probe('invalid-argument-accepted')
                i_ = op['obj'] % len(objs)
                models[i_] = (models[i_][0], engine_bits(objs[i_]))     # not demanded by the property: resync
                0 and violate('SET_MISMATCH', 'invalid-argument-accepted:%s' % name,
                        '%s accepted invalid argument %r' % (name, op.get('val', op.get('vals'))), feats)
        except RegexError as e:
            # a character-set string the engine rejects (e.g. a range ending in an escape): not judged here
            world.event(('regex-error', idx, str(e)[:60]))
            world.probe('charset-rejected')
            models[:] = before_models
            if 'obj' in op and objs:
                # a multi-part charset may have been applied in part before the rejection
                i_ = op['obj'] % len(objs)
                models[i_] = (models[i_][0], engine_bits(objs[i_]))
        except (ValueError, TypeError) as e:
            world.event(('raised', idx, type(e).__name__))
            if verdict != 'error':
                violate('SET_MISMATCH', 'valid-argument-rejected:%s' % name, '%s raised %s: %s' % (name, type(e).__name__, e), feats)
            else:
                stats['invalid_ops'] += 1
                i = op['obj'] % len(objs)
                eb = engine_bits(objs[i])
                prior = before_models[i][1]
                if name == 'update':
                    intended = prior
                    for v in op['vals']:
                        try:
                            intended |= vals_mask([v])
                        except ValueError:
                            pass
                    ok = (eb & ~intended) == 0 and (prior & ~eb) == 0     # between prior and intended
                else:
                    ok = eb == prior
                if not ok:
                    violate('SET_MISMATCH', 'failed-operation-changed-object:%s' % name,
                            'failed %s left object %d as %s, before it was %s' % (name, i, describe(eb), describe(prior)), feats)
                models[i] = (models[i][0], eb)
        while len(models) > len(objs):      # an operation that should have created an object failed
            models.pop()
        if len(objs) > len(models):
            objs.pop()
        if name in ('or', 'sub', 'rsub', 'and', 'xor', 'complement', 'copy', 'new', 'shared-copy', 'cc-new', 'cc-copy') and objs:
            touched.add(len(objs) - 1)
        stats['objects'] = len(objs)
        check_all(name, feats, touched)
    # no aliasing leak into the global tables
    for k, dg in shared_digest.items():
        if repr(shared_obj(k).codepoints) != dg:
            violate('ALIASING', 'global-table-changed', 'the shared object %s changed during the history' % k, ['shared:' + k])
    nontrivial = []
    if stats['ops'] >= 3:
        nontrivial = [hashlib.sha256('|'.join(shape).encode()).hexdigest()[:16]]
    return {'violations': violations, 'stats': stats, 'nontrivial': nontrivial}


def simplify(case):
    for i, op in enumerate(case['ops']):
        if 'vals' in op and len(op['vals']) > 1:
            for j in range(len(op['vals'])):
                ops = list(case['ops'])
                ops[i] = dict(op, vals=op['vals'][:j] + op['vals'][j + 1:])
                yield dict(case, ops=ops)
        if op.get('text') and len(op['text']) > 1 and not op['op'].startswith('cc-'):
            ops = list(case['ops'])
            ops[i] = dict(op, text=op['text'][:1])
            yield dict(case, ops=ops)
