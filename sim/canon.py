"""Canonical, JSON-serialisable forms of XPath results, exceptions and Python values."""
import math
import decimal
import datetime


def canon(value, depth=0, typed=False):
    """Canonical form: nodes by kind/name/position/string value, atomics by type + lexical
    form, maps/arrays recursively, function items by name/arity. Addresses never appear."""
    from elementpath.xpath_nodes import XPathNode
    from elementpath.xpath_tokens import XPathMap, XPathArray, XPathFunction
    if depth > 12:
        return ['deep']
    if value is None:
        return None
    if isinstance(value, bool):
        return ['bool', value]
    if isinstance(value, int):
        return [type(value).__name__, str(int(value))]
    if isinstance(value, float):
        if math.isnan(value):
            s = 'NaN'
        else:
            s = repr(float(value))
        return [type(value).__name__, s]
    if isinstance(value, decimal.Decimal):
        return ['Decimal', str(value)]
    if isinstance(value, str):
        return [type(value).__name__, str(value)]
    if isinstance(value, XPathNode):
        try:
            sv = value.string_value
        except Exception as e:   # pragma: no cover - diagnostic only
            sv = 'ERR:' + type(e).__name__
        out = ['node', value.node_kind if hasattr(value, 'node_kind') else type(value).__name__,
               str(value.name), value.position, sv[:60]]
        if typed:
            try:
                out.append(str(value.type_name))
                out.append(canon(value.typed_value, depth + 1))
            except Exception as e:
                out.append('ERR:' + type(e).__name__)
        return out
    if isinstance(value, XPathMap):
        try:
            items = [[canon(k, depth + 1, typed), canon(v, depth + 1, typed)] for k, v in value.items()]
        except Exception as e:
            return ['map', 'ERR:' + type(e).__name__]
        items.sort(key=lambda kv: repr(kv[0]))
        return ['map', items]
    if isinstance(value, XPathArray):
        try:
            return ['array', [canon(v, depth + 1, typed) for v in value.items()]]
        except Exception as e:
            return ['array', 'ERR:' + type(e).__name__]
    if isinstance(value, XPathFunction):
        try:
            return ['function', str(getattr(value, 'name', None) and value.name), value.arity]
        except Exception:
            return ['function', '?', -1]
    if isinstance(value, (list, tuple)) or type(value).__name__ in ('XSequence', 'xlist'):
        return [canon(v, depth + 1, typed) for v in value]
    if isinstance(value, (datetime.datetime, datetime.date)):
        return [type(value).__name__, value.isoformat()]
    if hasattr(value, 'tag') and hasattr(value, 'attrib'):
        return ['etree-element', str(value.tag)]
    try:
        return [type(value).__name__, str(value)]
    except Exception as e:
        return [type(value).__name__, 'ERR:' + type(e).__name__]


def canon_exc(exc):
    from elementpath.exceptions import ElementPathError
    code = getattr(exc, 'code', None)
    if isinstance(exc, ElementPathError):
        if code is not None and ':' in str(code):
            code = str(code).split(':')[-1]
        return ['error', 'ElementPathError', str(code)]
    return ['error', type(exc).__name__, str(exc)[:80]]


def is_ep_error(exc):
    from elementpath.exceptions import ElementPathError
    return isinstance(exc, ElementPathError)


def innermost_ep_frame(exc):
    """Innermost traceback frame inside elementpath: 'file.py:function'."""
    import os
    tb = exc.__traceback__
    best = None
    while tb is not None:
        fn = tb.tb_frame.f_code.co_filename
        if os.sep + 'elementpath' + os.sep in fn:
            best = '%s:%s' % (os.path.basename(fn), tb.tb_frame.f_code.co_name)
        tb = tb.tb_next
    return best or 'outside'
