"""
C20: schema-aware evaluation over histories of schema attach / detach / swap on reused node trees,
Selectors and parsers.

Generated XSD schemas over the built-in simple types (atomic, list, union, restriction,
simple-content extension with typed attributes), instances valid by construction (re-validated by
xmlschema), a second schema for the same vocabulary. Operations evaluate an expression on a tree
(plain etree, lxml, prebuilt node tree - reused across operations) with proxy A, proxy B or none,
through select() or a schema-bound Selector. After every operation:
 (i)   result == clean-room result under the same configuration (fresh tree, fresh parser);
 (ii)  typed values are instances of the datatype class of the declared type and equal what the schema
       processor decodes from the same text; instance of element(*, T) holds for T and its bases;
 (iii) the node list of structural path expressions equals the schema-less node list.
"""
import decimal
import hashlib

from ..gen import xsd as G
from ..canon import canon, canon_exc
from .. import runner

NAME = 'c20'

FORMS = ['et', 'et', 'lxml', 'nodetree-et', 'nodetree-et', 'nodetree-lxml']
STRUCT_PATHS = ['/t:r/*', '//*', '/t:r/*[1]', '/t:r/*[last()]', '//@*', '/t:r/@*', '//text()', '/t:r/node()',
                '/t:r/*/following-sibling::*', '//*[@u]', '/t:r/e0', '/t:r/e1/@u', '//e2/..', '/t:r/*[position() < 3]',
                '/t:r/child::e0', '//element()', '//attribute()', '/t:r/element(e1)', '//*[1]', '/descendant::*[2]']
NSMAP = {'t': G.TNS, 'xs': G.XS}


def gen_case(rng, tier):
    thorough = tier == 'thorough'
    spec = G.gen_schema_spec(rng, 8)
    ntrees = rng.randint(1, 3)
    trees = [rng.choice(FORMS) for _ in range(ntrees)]
    if spec.get('xsi') and rng.random() < 0.5:
        trees = [rng.choice([f for f in FORMS if 'lxml' in f]) for _ in range(ntrees)]
    # ElementTree keeps no prefix declarations: there the prefix of an xsi:type value must be one that the
    # `namespaces` argument declares; lxml trees resolve a prefix declared on the element itself
    spec['xsi_prefix'] = 'd' if all('lxml' in f for f in trees) else 'xs'
    xml, facts = G.gen_instance(rng, spec)
    nops = rng.randint(2, 20 if thorough else 10)
    ops = []
    for _ in range(nops):
        op = {'op': 'eval', 'tree': rng.randrange(ntrees), 'schema': rng.choice(['A', 'A', 'A', 'B', None]),
              'via': rng.choice(['select', 'select', 'selector', 'selector-iter'])}
        x = rng.random()
        if facts and x < 0.4:
            op['expr'] = {'kind': 'data', 'fact': rng.randrange(len(facts))}
        elif facts and x < 0.55:
            f = rng.randrange(len(facts))
            op['expr'] = {'kind': 'instance', 'fact': f, 'base': rng.randrange(4), 'wrong': rng.choice([0, 0, 0, 1, 2])}
        elif facts and x < 0.7:
            op['expr'] = {'kind': 'arith', 'fact': rng.randrange(len(facts)), 'var': rng.choice([0, 0, 1, 2, 3, 4, 5, 6])}
        else:
            op['expr'] = {'kind': 'path', 'path': rng.choice(STRUCT_PATHS)}
        if rng.random() < 0.15:
            op['inner'] = True      # (node tree forms) the context root is the first element child, paths go through '..'
        ops.append(op)
    cfg = {'spec': spec, 'xml': xml, 'facts': facts, 'trees': trees}
    if rng.random() < 0.25:
        cfg['fresh_proxy'] = True       # every operation gets a new proxy object of the same schema
    if rng.random() < 0.15:
        # the schema object is created unbuilt and is built in the middle of the history (same proxy object)
        cfg['late_build'] = rng.randrange(0, max(1, nops - 1))
    return {'config': cfg, 'ops': ops}


def expr_text(e, facts):
    if e['kind'] == 'path':
        return e['path']
    f = facts[e['fact'] % len(facts)]
    if e['kind'] == 'data':
        return 'data(%s)' % f['path']
    if e['kind'] == 'instance':
        chain = G.TYPES[f['type']][2]
        if not chain:
            return 'data(%s)' % f['path']
        t = chain[e['base'] % len(chain)]
        if f['kind'] == 'attribute':
            return '%s instance of attribute(*, %s)' % (f['path'], t)
        if e.get('wrong') and not f.get('nil') and G.TYPES[f['type']][1] not in ('lex', 'union', 'intlist'):
            # a type that is not in the chain: false, with or without an occurrence indicator
            return '%s instance of element(*, xs:date)%s' % (f['path'], '?' if e['wrong'] == 2 else '')
        return '%s instance of element(*, %s%s)' % (f['path'], t, '?' if f.get('nil') else '')
    kind = G.TYPES[f['type']][1]
    if kind in ('int', 'Decimal', 'float'):
        return ['%s + 1', '%s + 1.5', 'sum(%s)', 'abs(%s)', 'round(%s)', '%s idiv 1', '%s * 2'][e.get('var') or 0] % f['path']
    um = G.union_member(f['type'], f['lex']) if kind == 'union' and not f.get('nil') else None
    if um is not None and um[1] in ('integer', 'int', 'short', 'decimal', 'double'):
        # arithmetic and value comparison on a node whose type is a union and whose value is numeric
        return ('%s + 1' if e.get('fact', 0) % 2 == 0 else '%s lt 1000000') % f['path']
    if kind == 'bool':
        return 'not(data(%s))' % f['path']
    if f['type'] == 'date':
        return "data(%s) lt xs:date('2100-01-01Z')" % f['path']
    return 'string-length(string(%s))' % f['path']


def build_tree(xml, form):
    import xml.etree.ElementTree as ET
    import lxml.etree as LET
    import elementpath
    if 'lxml' in form:
        root = LET.fromstring(xml.encode())
    else:
        root = ET.fromstring(xml)
    if form.startswith('nodetree'):
        return {'root': elementpath.get_node_tree(root, dict(NSMAP)), 'base': root}
    return {'root': root, 'base': root}


def canon_nodes(res, base):
    idx = {}
    if hasattr(base, 'getroottree'):
        tree = base.getroottree()

        def one(x):
            if hasattr(x, 'tag') and hasattr(x, 'attrib'):
                return ['elem', tree.getpath(x)]
            return canon(x)
    else:
        for i, e in enumerate(base.iter()):
            idx[id(e)] = i

        def one(x):
            if hasattr(x, 'tag') and hasattr(x, 'attrib'):
                return ['elem', idx.get(id(x), -1)]
            return canon(x)
    if isinstance(res, list):
        return [one(x) for x in res]
    return one(res)


def evaluate(text, tree, proxy, via):
    import elementpath
    from elementpath.xpath31 import XPath31Parser
    kw = {'namespaces': NSMAP}
    inner = via.endswith('+inner')
    via = via.replace('+inner', '')
    if inner and not hasattr(tree['root'], 'tag'):
        # the context root is an inner node of the prebuilt node tree: its first element child
        kids = [c for c in tree['root'] if isinstance(c, elementpath.ElementNode)]
        if kids:
            tree = dict(tree, root=kids[0])
            text = text.replace('/t:r/', '../')
    if via == 'selector':
        pk = dict(kw)
        if proxy is not None:
            pk['schema'] = proxy
        s = elementpath.Selector(text, parser=XPath31Parser, **pk)
        return s.select(tree['root'], namespaces=NSMAP)
    if via == 'selector-iter':
        pk = dict(kw)
        if proxy is not None:
            pk['schema'] = proxy
        s = elementpath.Selector(text, parser=XPath31Parser, **pk)
        return list(s.iter_select(tree['root'], namespaces=NSMAP))
    if proxy is not None:
        return elementpath.select(tree['root'], text, parser=XPath31Parser, schema=proxy, **kw)
    return elementpath.select(tree['root'], text, parser=XPath31Parser, **kw)


def clean_room(xml, form, text, proxy, via):
    tree = build_tree(xml, form)
    try:
        res = evaluate(text, tree, proxy, via)
        return ['ok', canon_nodes(res, tree['base']), [type(x).__name__ for x in (res if isinstance(res, list) else [res])]]
    except BaseException as e:
        return canon_exc(e)


def py_kind_ok(kind, v):
    name = type(v).__name__
    if kind == 'int':
        return isinstance(v, int) and not isinstance(v, bool)
    if kind == 'Decimal':
        return isinstance(v, decimal.Decimal)
    if kind == 'float':
        return isinstance(v, float)
    if kind == 'bool':
        return isinstance(v, bool)
    if kind == 'str':
        return isinstance(v, str) or name == 'AnyURI'
    if kind == 'lex':
        return name.startswith(('Date', 'Time'))
    return True


def same_value(v, d):
    """Engine typed value v vs the schema processor's decoded value d."""
    import math
    if isinstance(d, bool) or isinstance(v, bool):
        return isinstance(v, bool) and isinstance(d, bool) and v == d
    if isinstance(d, (int, decimal.Decimal)) and not isinstance(d, bool):
        try:
            return decimal.Decimal(str(v)) == decimal.Decimal(str(d)) and not isinstance(v, str)
        except (decimal.InvalidOperation, ValueError):
            return False
    if isinstance(d, float):
        return isinstance(v, float) and (v == d or (math.isnan(v) and math.isnan(d)))
    if hasattr(d, 'tzinfo') and hasattr(d, 'year'):
        # date/time values: XSD 1.0 and 1.1 classes count years differently, the class must be the same too
        return type(v) is type(d) and str(v) == str(d) and v == d
    return str(v) == str(d)


def run_case(case, world):
    import warnings
    warnings.simplefilter('ignore')
    import xmlschema
    from xmlschema.xpath import XMLSchemaProxy
    cfg = case['config']
    violations = []
    stats = {'ops': 0, 'evaluations': 0, 'typed_value_checks': 0, 'node_list_checks': 0, 'clean_room_forks': 0,
             'schema_swaps': 0}
    late = cfg.get('late_build')
    built = [late is None]
    try:
        schema_class = xmlschema.XMLSchema11 if cfg['spec'].get('xsd11') else xmlschema.XMLSchema
        check_a = schema_class(G.render_schema(cfg['spec'], 'A'))
        schema_b = schema_class(G.render_schema(cfg['spec'], 'B'))
        if not check_a.is_valid(cfg['xml']) or not schema_b.is_valid(cfg['xml']):
            return {'violations': [], 'stats': stats, 'nontrivial': [], 'skipped': 'instance not valid'}
        schema_a = check_a if late is None else schema_class(G.render_schema(cfg['spec'], 'A'), build=False)
    except Exception as e:
        return {'violations': [], 'stats': stats, 'nontrivial': [], 'harness_error': 'schema build: %r' % e}
    proxies = {'A': XMLSchemaProxy(schema_a), 'B': XMLSchemaProxy(schema_b), None: None}
    schemas = {'A': schema_a, 'B': schema_b}
    trees = [build_tree(cfg['xml'], f) for f in cfg['trees']]
    last_schema = {}
    refs = {}
    shape = []

    def violate(cls, signature, detail, features=()):
        violations.append({'cls': cls, 'signature': signature, 'detail': detail, 'features': sorted(set(features))})

    def ref_for(form, text, sk, via):
        key = (form, text, sk, via, built[0])
        if key not in refs:
            st, val = runner.fork_call(lambda: clean_room(cfg['xml'], form, text, proxies[sk], via), timeout=60)
            refs[key] = val if st == 'ok' else ['ref-failed', st]
            stats['clean_room_forks'] += 1
        return refs[key]

    def xsd_type_of(sk, tkey, xsi=False):
        if sk == 'B' and not xsi:
            tkey = G.SUPERTYPE[tkey]
        name = G.TYPES[tkey][0]
        pfx, local = name.split(':')
        sch = schemas[sk]
        if pfx == 'xs':
            return sch.meta_schema.types[local]
        return sch.types[local]

    for idx, op in enumerate(case['ops']):
        stats['ops'] += 1
        if late is not None and idx == late and not built[0]:
            schema_a.build()
            built[0] = True
            world.probe('schema-built-in-the-middle-of-the-history')
            # node trees typed while the schema was unbuilt are not carried across the build (a schema that changes
            # under a tree that refers to it is outside the statement); the proxy object IS carried across
            trees[:] = [build_tree(cfg['xml'], f) for f in cfg['trees']]
            last_schema.clear()
        ti = op['tree'] % len(trees)
        form = cfg['trees'][ti]
        via = op.get('via', 'select') + ('+inner' if op.get('inner') and form.startswith('nodetree') else '')
        tree = trees[ti]
        sk = op.get('schema')
        text = expr_text(op['expr'], cfg['facts']) if (cfg['facts'] or op['expr']['kind'] == 'path') else '/t:r'
        feats = ['form:' + form, 'schema:' + str(sk), 'via:' + via, 'expr:' + op['expr']['kind']]
        prev = last_schema.get(ti, 'first-use')
        if prev != 'first-use':
            feats.append('tree-reused')
            if prev != sk:
                stats['schema_swaps'] += 1
                feats.append('schema-changed')
            else:
                feats.append('same-schema-again')
        last_schema[ti] = sk
        world.event(('op', idx, form, sk, text))
        shape.append('%s|%s|%s' % (form, sk, op['expr']['kind']))
        stats['evaluations'] += 1
        try:
            proxy_ = proxies[sk]
            if cfg.get('fresh_proxy') and sk is not None and (built[0] or sk != 'A'):
                proxy_ = XMLSchemaProxy(schemas[sk])        # another proxy object for the same schema
            res = evaluate(text, tree, proxy_, via)
            items = res if isinstance(res, list) else [res]
            outcome = ['ok', canon_nodes(res, tree['base']), [type(x).__name__ for x in items]]
        except Exception as e:
            outcome = canon_exc(e)
            items = []
        world.event(('result', idx, outcome))
        # (i) clean room, same configuration
        ref = ref_for(form, text, sk, via)
        if ref[0] != 'ref-failed' and outcome != ref:
            violate('HISTORY_DEPENDENT', 'differs-from-clean-room:%s' % op['expr']['kind'],
                    '%s on tree %d (%s) with schema %s gave %r, a fresh tree and parser give %r' % (
                        text, ti, form, sk, outcome, ref), feats)
        # (i-b) the entry points agree: a schema-bound Selector (select and iter_select) gives what select() gives
        if via.replace('+inner', '') != 'select' and outcome[0] == 'ok' and ref == outcome:
            ref2 = ref_for(form, text, sk, 'select' + ('+inner' if via.endswith('+inner') else ''))
            if ref2[0] == 'ok':
                a = outcome[1] if isinstance(outcome[1], list) and (not outcome[1] or isinstance(outcome[1][0], list)) else [outcome[1]]
                b = ref2[1] if isinstance(ref2[1], list) and (not ref2[1] or isinstance(ref2[1][0], list)) else [ref2[1]]
                if a != b:
                    violate('API_DIFFERS', 'selector-differs-from-select:%s' % op.get('via'),
                            '%s with schema %s through %s gives %r, select() gives %r' % (text, sk, op.get('via'), a, b), feats)
        # (ii) typed values
        e = op['expr']
        if sk is not None and e['kind'] == 'data' and outcome[0] == 'error' and ref == outcome and cfg['facts'] \
                and (built[0] or sk != 'A'):
            plain = ref_for(form, text, None, via)
            if plain[0] == 'ok':
                f = cfg['facts'][e['fact'] % len(cfg['facts'])]
                violate('TYPED_VALUE', 'typed-value-raises:%s' % f['type'],
                        'data() of %s (%r, declared %s) raises %r on a valid instance' % (
                            f['path'], f['lex'], G.TYPES[f['type']][0], outcome[:3]), feats + ['type:' + f['type']])
        if sk is not None and e['kind'] == 'data' and outcome[0] == 'ok' and cfg['facts'] and (built[0] or sk != 'A'):
            f = cfg['facts'][e['fact'] % len(cfg['facts'])]
            tkey = f['type'] if (sk == 'A' or f.get('xsi')) else G.SUPERTYPE[f['type']]
            kind = G.TYPES[tkey][1]
            stats['typed_value_checks'] += 1
            try:
                decoded = [] if f.get('nil') else xsd_type_of(sk, f['type'], f.get('xsi')).decode(f.get('eff', f['lex']))
            except Exception as ex:
                decoded = None
                world.event(('decode-failed', repr(ex)[:80]))
            if decoded is not None:
                dl = decoded if isinstance(decoded, list) else [decoded]
                # compare with the clean room value so that history effects are reported by (i) only
                if len(items) != len(dl) or not all(same_value(v, d) for v, d in zip(items, dl)):
                    if ref == outcome:
                        violate('TYPED_VALUE', 'typed-value-differs-from-schema-processor:%s' % tkey,
                                'data() of %s (%r, type %s) is %r, the schema processor decodes %r' % (
                                    f['path'], f['lex'], G.TYPES[tkey][0], [canon(x) for x in items], dl), feats + ['type:' + tkey])
                elif kind not in ('intlist', 'union') and not all(py_kind_ok(kind, v) for v in items):
                    extra = ['type:' + tkey]
                    if tkey == 'smallInt' and all(isinstance(v, decimal.Decimal) for v in items):
                        extra.append('user-derived-integer-restriction-decoded-as-decimal')
                    violate('TYPED_VALUE', 'typed-value-wrong-class:%s' % tkey,
                            'data() of %s (type %s) has classes %r' % (f['path'], G.TYPES[tkey][0],
                                                                        [type(x).__name__ for x in items]), feats + extra)
        if sk == 'A' and built[0] and e['kind'] == 'instance' and cfg['facts'] and outcome[0] == 'ok' and ref == outcome \
                and e.get('wrong') and (text.endswith('element(*, xs:date)') or text.endswith('element(*, xs:date)?')) \
                and G.TYPES[cfg['facts'][e['fact'] % len(cfg['facts'])]['type']][1] not in ('lex', 'union', 'intlist'):
            if outcome[1] not in (['bool', False], [['bool', False]]):
                f = cfg['facts'][e['fact'] % len(cfg['facts'])]
                violate('TYPED_VALUE', 'instance-of-unrelated-type-true:%s' % f['type'], '%s is %r' % (text, outcome[1]),
                        feats + ['type:' + f['type']])
        elif sk == 'A' and built[0] and e['kind'] == 'instance' and cfg['facts'] and outcome[0] == 'ok' and ref == outcome:
            f = cfg['facts'][e['fact'] % len(cfg['facts'])]
            if G.TYPES[f['type']][2] and outcome[1] not in (['bool', True], [['bool', True]]) and not f.get('simple_content'):
                extra = ['type:' + f['type']]
                if f['type'] == 'smallInt' and 'xs:integer' in text:
                    # element(*, T) falls back to the class of the typed value, which is Decimal here
                    extra.append('user-derived-integer-restriction-decoded-as-decimal')
                violate('TYPED_VALUE', 'instance-of-declared-type-false:%s' % f['type'],
                        '%s is %r' % (text, outcome[1]), feats + extra)
        # (ii-b) arithmetic and comparison use the typed value
        if sk is not None and e['kind'] == 'arith' and cfg['facts'] and (built[0] or sk != 'A') and ref == outcome \
                and (text.endswith(' + 1') or text.endswith(' + 1.5') or text.endswith(' lt 1000000')
                     or text.startswith(('sum(', 'abs(', 'round(')) or text.endswith((' idiv 1', ' * 2'))):
            f = cfg['facts'][e['fact'] % len(cfg['facts'])]
            stats['typed_value_checks'] += 1
            try:
                decoded = xsd_type_of(sk, f['type'], f.get('xsi')).decode(f.get('eff', f['lex']))
            except Exception:
                decoded = None
            numeric = isinstance(decoded, (int, float, decimal.Decimal)) and not isinstance(decoded, bool)
            if f.get('nil') or not numeric:
                pass        # an empty or non numeric operand: the outcome is not judged here
            elif text.endswith(' idiv 1') and isinstance(decoded, float) and (decoded != decoded or decoded in (
                    float('inf'), float('-inf'))):
                pass        # FOAR0002 is the right outcome: not judged here
            elif outcome[0] == 'error':
                extra = ['type:' + f['type']]
                um = G.union_member(f['type'], f['lex']) if sk == 'A' else None
                if um is not None and um[0] > 0:
                    extra.append('union-value-of-a-later-member')
                violate('TYPED_VALUE', 'typed-arithmetic-raises:%s' % f['type'],
                        '%s (%r, type %s, decoded %r) raises %r' % (text, f['lex'], f['type'], decoded, outcome[:3]), feats + extra)
            elif text.endswith(' idiv 1') and isinstance(decoded, float) and (decoded != decoded or decoded in (
                    float('inf'), float('-inf'))):
                pass        # FOAR0002: not judged here
            elif text.endswith((' + 1', ' + 1.5', ' idiv 1', ' * 2')) or text.startswith(('sum(', 'abs(', 'round(')):
                got = items[0] if len(items) == 1 else None
                if text.endswith(' + 1'):
                    want = decoded + 1
                elif text.endswith(' idiv 1'):
                    want = int(decoded)
                elif text.endswith(' * 2'):
                    want = decoded * 2
                elif text.startswith('sum('):
                    want = decoded
                elif text.startswith('abs('):
                    want = abs(decoded)
                elif text.startswith('round('):
                    import math as _m
                    if isinstance(decoded, float):
                        want = decoded if (_m.isinf(decoded) or _m.isnan(decoded)) else float(_m.floor(decoded + 0.5))
                    elif isinstance(decoded, int):
                        want = decoded
                    else:
                        want = (decoded + decimal.Decimal('0.5')).to_integral_value(rounding=decimal.ROUND_FLOOR)
                else:
                    want = decoded + (1.5 if isinstance(decoded, float) else decimal.Decimal('1.5'))
                if text.startswith(('sum(', 'abs(', 'round(')) and sk == 'A' and not f.get('xsi') and got is not None:
                    # the functions are applied to the typed value: the result keeps its numeric class
                    k_ = G.TYPES[f['type']][1]
                    if k_ == 'int' and not (isinstance(got, int) and not isinstance(got, bool)):
                        got = None if f['type'] != 'smallInt' else got
                    elif k_ == 'Decimal' and not isinstance(got, decimal.Decimal):
                        got = None
                ok = got is not None and not isinstance(got, (str, bool)) and same_value(got, want) and \
                    isinstance(got, float) == isinstance(want, float)
                if ok and sk == 'A' and f['type'] in ('float', 'double') and not f.get('xsi') and not text.endswith(' idiv 1'):
                    # xs:float + xs:decimal is an xs:float, xs:double + xs:decimal an xs:double
                    ok = type(got).__name__.startswith('Float') == (f['type'] == 'float')
                if not ok:
                    violate('TYPED_VALUE', 'typed-arithmetic-differs:%s' % f['type'],
                            '%s (%r, type %s) gives %r (%s), the typed value gives %r' % (
                                text, f['lex'], f['type'], [canon(x) for x in items], [type(x).__name__ for x in items], want),
                            feats + ['type:' + f['type']])
            elif items != [True]:
                violate('TYPED_VALUE', 'typed-comparison-differs:%s' % f['type'],
                        '%s (%r, type %s) gives %r' % (text, f['lex'], f['type'], [canon(x) for x in items]), feats + ['type:' + f['type']])
        # (iii) schema never changes node selection of structural paths
        if e['kind'] == 'path' and sk is not None and (built[0] or sk != 'A'):
            stats['node_list_checks'] += 1
            plain = ref_for(form, text, None, via)
            if plain[0] != 'ref-failed' and ref[0] != 'ref-failed' and plain[:2] != ref[:2]:
                if plain[0] == 'ok' and ref[0] == 'ok' and isinstance(plain[1], list) and isinstance(ref[1], list):
                    missing = [x for x in plain[1] if x not in ref[1]]
                    extra = [x for x in ref[1] if x not in plain[1]]
                    if not extra and missing and all(x in (['elem', '/t:r'], ['elem', 0]) for x in missing):
                        feats.append('only-the-root-element-is-missing-with-schema')
                violate('SELECTION_CHANGED', 'schema-changes-node-selection',
                        '%s selects %r with schema %s but %r without a schema' % (text, ref[:2], sk, plain[:2]), feats)
    nontrivial = []
    if stats['evaluations'] >= 2:
        nontrivial = [hashlib.sha256(('|'.join(shape)).encode()).hexdigest()[:16]]
    return {'violations': violations, 'stats': stats, 'nontrivial': nontrivial}


def simplify(case):
    cfg = case['config']
    if len(cfg['trees']) > 1:
        yield dict(case, config=dict(cfg, trees=cfg['trees'][:1]))
    for i, op in enumerate(case['ops']):
        if op.get('via') != 'select':
            ops = list(case['ops'])
            ops[i] = dict(op, via='select')
            yield dict(case, ops=ops)
