#!/venv/bin/python
"""Run the repository's pinned test suite (guard off) and compare with BASELINE.json's stable_pass.
Exit 0 iff every stable_pass test still passes."""
import json, os, subprocess, sys, tempfile
import xml.etree.ElementTree as ET

base = json.load(open('/root/.vp/BASELINE.json'))
tmp = tempfile.mkdtemp(prefix='baseline-')
junit = os.path.join(tmp, 'run.junit.xml')
cmd = base['cmd'].replace('<file>', junit)
env = dict(os.environ)
env.pop('ELEMENTPATH_VERIF', None)
p = subprocess.run(cmd, shell=True, env=env, stdout=subprocess.PIPE, stderr=subprocess.STDOUT, text=True)
passed = set()
for tc in ET.parse(junit).getroot().iter('testcase'):
    if not any(ch.tag in ('failure', 'error', 'skipped') for ch in tc):
        passed.add('%s::%s' % (tc.get('classname'), tc.get('name')))
missing = [t for t in base['stable_pass'] if t not in passed]
print(p.stdout.strip().splitlines()[-1])
print('stable_pass=%d still_passing=%d missing=%d' % (len(base['stable_pass']), len(base['stable_pass']) - len(missing), len(missing)))
for t in missing[:20]:
    print('  MISSING', t)
import shutil; shutil.rmtree(tmp, ignore_errors=True)
sys.exit(1 if missing else 0)
