"""C05, scoping clause: programs over the mini-language restricted to binders (let/for/some/every,
inline-function parameters called in place) with deliberate name shadowing; every binder is followed
by a read of the same name; a name bound only inside a binder and read outside must be a static error."""
from . import c16 as _c16

NAME = 'c05s'
MINIMISE_BEFORE_KNOWN = True
simplify = _c16.simplify
run_case = _c16.run_case


def gen_case(rng, tier):
    return _c16.gen_case(rng, tier, profile='scope')
