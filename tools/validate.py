#!/usr/bin/env python3-vt
import json, sys, glob, jsonschema
m = json.load(open('/verif/MANIFEST.json'))
jsonschema.validate(m, json.load(open('/root/.vp/MANIFEST.schema.json')))
props = [json.loads(l)['id'] for l in open('/verif/properties.jsonl')]
claimed = [c['property_id'] for c in m['checks']]
na = [n['property_id'] for n in m.get('not_applicable', [])]
print('manifest ok; claimed', claimed, 'n/a', na, 'unlisted', [p for p in props if p not in claimed and p not in na])
es = json.load(open('/root/.vp/EVIDENCE.schema.json'))
for f in sorted(glob.glob('/verif/evidence/*.json')):
    try:
        jsonschema.validate(json.load(open(f)), es)
        print('evidence ok', f)
    except Exception as e:
        print('EVIDENCE INVALID', f, str(e)[:300]); sys.exit(1)
