"""Property registry: which arms decide which property, tiers, and evidence metadata."""
from types import SimpleNamespace as NS

from .checks import c19a, c15

REAL_COMMON = ['all of elementpath (imported from /repo working tree)', 'CPython re/decimal/json/expat',
               'lxml', 'xmlschema', 'stdlib locale.setlocale/getlocale/normalize (Python level)']
STUB_COMMON = ['OS locale database and setlocale/strcoll/strxfrm C primitives (SimLocale)',
               'threading.Lock for elementpath modules (SimLock, deadlock-detecting)',
               'urllib.request.urlopen / pathlib.Path.open (SimFS/SimNet)', 'wall clock (current_dt argument)',
               'thread scheduler (baton passing at sys.monitoring line events)']

PROPS = {}


def register(**kw):
    p = NS(**kw)
    PROPS[p.ID] = p
    return p


register(
    ID='C19', LEVEL='fault_enumeration',
    ARMS=[(c19a, 1.0)],
    TIERS={'quick': {'runs': 1500, 'wall_cap': 100, 'minimise_budget': 30},
           'thorough': {'runs': 40000, 'wall_cap': 800, 'minimise_budget': 90}},
    RULE='each run = one seeded history (2-30 operations) of collation evaluations, lazy-generator '
         'open/step/close/throw/drop/gc and injected setlocale failures under a per-run installed-locale set; '
         'non-trivial = the history acquired the collation lock at least once; distinct = distinct '
         '(operation-kind sequence, functions, installed set, initial locale)',
    REAL=REAL_COMMON, STUB=STUB_COMMON,
    EXPECTED_PROBES=['fault:setlocale-error', 'lock-contended'],
    ASSUMPTIONS=['locale orderings are those of the stub, not glibc', 'pre-emption granularity is a Python line'],
)

register(
    ID='C15', LEVEL='exploration',
    ARMS=[(c15, 1.0)],
    TIERS={'quick': {'runs': 3000, 'wall_cap': 100, 'minimise_budget': 30},
           'thorough': {'runs': 60000, 'wall_cap': 800, 'minimise_budget': 90}},
    RULE='each run = one seeded history (3-40 operations) of map:*/array:* functions, constructors and lookups '
         'over a pool of at most 10 aliasing map/array values (results re-enter the pool as the same objects); '
         'after every operation the result is compared with a persistent reference model and every pool member is '
         're-observed; non-trivial = at least 3 operations and 2 pool members; distinct = distinct operation-name sequence',
    REAL=REAL_COMMON, STUB=['none needed: the simulated dimension is the operation history and aliasing'],
    EXPECTED_PROBES=[],
    ASSUMPTIONS=['same-key relation of the model: numeric by exact value (NaN=NaN), string/anyURI/untypedAtomic by '
                 'code points, other types by type+value; map keys are compared by same-key class, not representation'],
)
