"""
./check selftest [--what determinism|sensitivity|all]

determinism: for every property, runs 0..N-1 are executed twice more in fresh interpreters - another
PYTHONHASHSEED and another worker count - and the per-run event-log digests must be identical.
sensitivity: every change kept under /verif/seeded/<id>/patch.diff is applied to a scratch copy of the
repository (mkdtemp, removed afterwards), the property's check is run against it through VERIF_REPO and
must report a VIOLATION.
"""
import os
import re
import sys
import json
import shutil
import subprocess
import tempfile

VERIF_DIR = os.path.dirname(os.path.dirname(os.path.abspath(__file__)))
CHECK = os.path.join(VERIF_DIR, 'check')


def digests(prop, runs, hashseed, workers, seed):
    env = dict(os.environ, VERIF_HASHSEED=str(hashseed), VERIF_SEED=str(seed))
    env.pop('PYTHONHASHSEED', None)
    p = subprocess.run([CHECK, 'digest', prop, '--runs', str(runs), '--workers', str(workers)], env=env,
                       capture_output=True, text=True, timeout=1800)
    line = [ln for ln in p.stdout.splitlines() if ln.startswith('{')]
    return json.loads(line[-1]) if line else {'error': p.stderr[-500:]}


def determinism(runs=48):
    from . import props
    bad = 0
    for pid in sorted(props.PROPS):
        if getattr(props.PROPS[pid], 'DRIVER', None):
            continue        # C04: the hash seed is the simulated dimension itself
        a = digests(pid, runs, 0, 4, 0)
        b = digests(pid, runs, 424242, 16, 0)
        c = digests(pid, runs, 7, 1 if runs <= 16 else 3, 0)
        diff = [k for k in a if a.get(k) != b.get(k) or a.get(k) != c.get(k)]
        print('determinism %s: %d runs x 3 interpreters (hash seeds 0/424242/7, workers 4/16/3): %s' % (
            pid, len(a), 'identical' if not diff and 'error' not in a else 'DIVERGED %r' % diff[:5]))
        if diff or 'error' in a:
            bad += 1
    return bad


def sensitivity(only=None):
    repo = os.path.realpath(os.environ.get('VERIF_REPO', '/repo'))
    missed = 0
    for name in sorted(os.listdir(os.path.join(VERIF_DIR, 'seeded'))):
        d = os.path.join(VERIF_DIR, 'seeded', name)
        patch = os.path.join(d, 'patch.diff')
        if not os.path.isfile(patch) or (only and not name.startswith(only)):
            continue
        pid = name.split('-')[0]
        # meta.json may name another property's check (a change delivered for P but decided by Q's check) and
        # records what is expected: 'detected', 'neutralised' (a later repair made the change harmless, its
        # demonstration passes) or 'not-caught' (documented in DESIGN.md section 8)
        expect = 'detected'
        try:
            with open(os.path.join(d, 'meta.json')) as fp:
                meta = json.load(fp)
            expect = meta.get('expect', 'detected')
            m = re.search(r'\./check (C\d\d)', meta.get('check_cmd', ''))
            if m:
                pid = m.group(1)
        except (OSError, ValueError):
            pass
        if expect != 'detected':
            print('sensitivity %s: %s (see DESIGN.md section 8), skipped' % (name, expect))
            continue
        tmp = tempfile.mkdtemp(prefix='verif-mutant-')
        try:
            shutil.copytree(os.path.join(repo, 'elementpath'), os.path.join(tmp, 'elementpath'))
            ap = subprocess.run(['patch', '-p1', '-s', '-i', patch], cwd=tmp, capture_output=True, text=True)
            if ap.returncode != 0:
                print('sensitivity %s: patch does not apply to the current tree (kept for the record)' % name)
                continue
            env = dict(os.environ, VERIF_REPO=tmp)
            p = subprocess.run([CHECK, pid, '--no-evidence', '--minimise-budget', '0'], env=env, capture_output=True,
                               text=True, timeout=3600)
            hit = p.returncode == 1 and 'VIOLATION property=%s' % pid in p.stdout
            print('sensitivity %s: %s' % (name, 'detected' if hit else 'MISSED (exit %d)' % p.returncode))
            if not hit:
                missed += 1
        finally:
            shutil.rmtree(tmp, ignore_errors=True)
    return missed


def main(args):
    what = args.arg or 'all'
    bad = 0
    if what in ('determinism', 'all'):
        bad += determinism(args.runs or 48)
    if what in ('sensitivity', 'all') or what.startswith('C'):
        bad += sensitivity(what if what.startswith('C') else None)
    print('selftest: %s' % ('OK' if not bad else '%d problem(s)' % bad))
    return 0 if not bad else 2
