"""
C05, history arm: evaluation histories over shared Selectors / tokens, documents and
caller-owned values; interleaved, closed and abandoned lazy generators; failing evaluations in
the middle of a history; clock and implicit-timezone changes between evaluations.

After every operation:
 (i)   canonical result == clean-room result: the same call made by a fresh parser on a fresh
       context over fresh copies of the original inputs, in a child forked from the current
       process (so process-global state is the same on both sides);
 (ii)  select == list(iter_select);
 (iii) snapshots taken before the operation (serialisation of every document, deep structural
       snapshot of every variable value incl. tzinfo/__dict__, namespace maps) are unchanged.
"""
import gc
import re
import hashlib
import datetime

from ..gen import xmldoc as X
from ..canon import canon, canon_exc
from .. import runner

NAME = 'c05h'

FORMS = ['et-elem', 'et-elem', 'et-tree', 'lxml-elem', 'lxml-tree', 'nodetree-et', 'nodetree-lxml']
INSTANTS = ['2020-01-01T00:00:00+00:00', '2021-06-15T12:30:00+02:00', '1999-12-31T23:59:59-05:00',
            '2030-03-01T08:00:00+00:00']
TZS = [None, None, '+05:00', '-03:30', 'Z']
NSMAP = {'p': X.NS}


def min_version(expr):
    if any(k in expr for k in ('map', 'array', '[ ', 'sort(')) or expr in X.FN_EXPRS or expr in X.ABANDON_EXPRS:
        return '3.1'
    if any(k in expr for k in (' ! ', 'let $', 'function(', 'path(', 'head(', 'tail(', 'innermost', 'outermost',
                               'has-children', 'serialize', 'generate-id', 'sort(', 'parse-xml', 'for-each', 'format-', 'analyze-string',
                               'filter(', 'fold-')):
        return '3.0'
    return '2.0'


def gen_expr(rng):
    x = rng.random()
    if x < 0.22:
        e = rng.choice(X.PATHS)
        v = rng.choice(['1.0', '2.0', '3.0', '3.1'])
        return e, v
    if x < 0.36:
        e = rng.choice(X.SCALARS)
    elif x < 0.5:
        e = rng.choice(X.XP2)
    elif x < 0.58:
        e = rng.choice(X.XP3)
    elif x < 0.64:
        e = rng.choice(X.FN_EXPRS)
    elif x < 0.70:
        e = rng.choice(X.ABANDON_EXPRS)
    elif x < 0.75:
        e = rng.choice(X.SERIALIZE_EXPRS)
    elif x < 0.84:
        e = rng.choice(X.VAR_EXPRS)
    elif x < 0.93:
        e = rng.choice(X.PARAM_EXPRS)
    else:
        e = rng.choice(X.FAILING)
    if rng.random() < 0.15:
        e2 = rng.choice(X.PATHS + X.VAR_EXPRS)
        e = '(%s, %s)' % (e, e2)
    mv = min_version(e)
    v = rng.choice([x for x in ('2.0', '3.0', '3.1', '3.1') if x >= mv])
    return e, v


# Expressions whose value is the same for every document: each argument of a call is evaluated on the focus of the
# call, whatever the other arguments did (XPath 1.0 and the compatibility mode take the first node of a node-set and
# abandon the rest of its evaluation)
_INV1 = [
    ("count(//*[concat(*, '|', name()) != concat(string(*[1]), '|', name())])", 0),
    ("count(//*[not(contains(concat(*, '|', name()), concat('|', name())))])", 0),
    ("count(//*[string-length(concat(.//*, name())) != string-length(string((.//*)[1])) + string-length(name())])", 0),
    ("count(//*[substring-after(concat(*, '#', local-name()), '#') != local-name()])", 0),
    ("count(//*[starts-with(name(), substring(*, 1, 0)) = false()])", 0),
    ("count(//*[translate(concat(@*, '~', name()), '~', '') != concat(string(@*[1]), name())][not(contains(string(@*[1]), '~'))])", 0),
]
_INV2 = [       # XPath 2.0+: operands of ',' / several range expressions / several sequence arguments on one focus
    "count(//*[(exists(*), name())[2] != name()])",
    "count(//*[(not(*), empty(*), name())[3] != name()])",
    "count(//*[(count(//*), name())[2] != name()])",
    "count(//*[(name(..), .., name())[last()] != name()])",
    "count(//*[((1 instance of item()), name())[2] != name()])",
    "count(//*[not(deep-equal(*, *))])",
    "count(//*[count(for $x in *, $y in * return 1) != count(*) * count(*)])",
    "count(//*[*][not(some $x in *, $y in * satisfies $x is $y and local-name() = local-name($y/..))])",
    "count(//*[*][not(every $x in * satisfies local-name() = local-name($x/..))])",
    "count(//*[*][insert-before(*/local-name(), 2, local-name())[2] != local-name()])",
]
_INV3 = [
    "count(//*[count(for-each-pair(*, *, function($x, $y) { 1 })) != count(*)])",
    "count(//*[(head(*), name())[last()] != name()])",
    "count(//*[(count(outermost(*)), count(innermost(*)), name())[3] != name()])",
    "count(//*[(*, name())[last()] != name()])",
]
_INV4 = [       # appended later (indexes above are kept for the replay files)
    ("count(//*[(let $e := exists(*) return name(.)) != name()])", ('3.0', '3.1')),
    ("count(//*[(let $e := /*, $n := name(.) return $n) != name()])", ('3.0', '3.1')),
    ("count(//*[(let $f := function($p, $q) { $q } return $f(exists(*), name(.))) != name()])", ('3.0', '3.1')),
    ("count(//*[concat#3(string(exists(*)), '|', name(.)) != concat(string(exists(*)), '|', name())])", ('3.0', '3.1')),
    ("count(//*[(let $f := concat(string(exists(*)), '|', ?, name(.)) return $f('-')) != concat(string(exists(*)), '|-', name())])",
     ('3.0', '3.1')),
    ("count(//*[(string(exists(*)) => concat('|', name(.))) != concat(string(exists(*)), '|', name())])", ('3.1',)),
    ("count(//*[map{'x': exists(*), 'y': name(.)}?y != name()])", ('3.1',)),
    ("count(//*[[exists(*), name(.)]?2 != name()])", ('3.1',)),
    ("count(//*[array{exists(*), name(.)}?2 != name()])", ('3.1',)),
    ("count(//*[*][not(head(*) is *[1])])", ('3.0', '3.1')),
    ("count(//*[*][not((*)[1] is *[1]) or (*[1] << .) or not(. << *[1])])", ('2.0', '3.0', '3.1')),
]
INVARIANTS = [(e, w, ('1.0', 'compat')) for e, w in _INV1] + [(e, 0, ('2.0', '3.0', '3.1')) for e in _INV2] + [
    (e, 0, ('3.0', '3.1')) for e in _INV3] + [(e, 0, m) for e, m in _INV4]


def gen_case(rng, tier):
    thorough = tier == 'thorough'
    ndocs = rng.randint(1, 3)
    docs = [{'xml': X.gen_xml(rng), 'form': rng.choice(FORMS)} for _ in range(ndocs)]
    nvs = rng.randint(1, 3)
    varsets = []
    for _ in range(nvs):
        vs = {k: rng.choice(v) for k, v in X.VARIABLE_SPECS.items()}
        if varsets and rng.random() < 0.6:
            # a perturbation of the first set: most bindings equal, a few different (what a per-call-site memo
            # keyed on some of the arguments gets wrong)
            keep = dict(varsets[0])
            for k in rng.sample(sorted(X.VARIABLE_SPECS), rng.choice([1, 2, 3])):
                keep[k] = vs[k]
            vs = keep
        d = rng.randrange(ndocs)
        vs['node'] = ['node', d, rng.randint(0, 5)]
        vs['nodes'] = ['nodes', d, [rng.randint(0, 5) for _ in range(rng.choice([0, 1, 2]))]]
        varsets.append(vs)
    nsel = rng.randint(1, 6)
    selectors = []
    for _ in range(nsel):
        e, v = gen_expr(rng)
        selectors.append({'expr': e, 'v': v})
        if rng.random() < 0.15:
            selectors[-1]['cvars'] = rng.randrange(nvs)
    if rng.random() < 0.2:
        # memo-focused history: few call sites whose arguments come from variables, evaluated again and again
        # through the same Selector / token under bindings that differ in one or two variables
        nsel = rng.randint(1, 2)
        selectors = []
        for _ in range(nsel):
            e = rng.choice(X.PARAM_EXPRS)
            mv = min_version(e)
            selectors.append({'expr': e, 'v': rng.choice([x for x in ('2.0', '3.0', '3.1', '3.1') if x >= mv])})
        used = sorted(set(n for sl in selectors for n in re.findall(r'\$(\w+)', sl['expr']) if n in X.VARIABLE_SPECS))
        varsets = varsets[:1]
        while len(varsets) < 3 and used:
            keep = dict(varsets[0])
            for k in rng.sample(used, min(len(used), rng.choice([1, 1, 2]))):
                keep[k] = rng.choice(X.VARIABLE_SPECS[k])
            varsets.append(keep)
        nvs = len(varsets)
    nops = rng.randint(3, 40 if thorough else 16)
    ops = []
    ntasks = 0
    gen_rate = rng.choice([0, 0.15, 0.35])
    for _ in range(nops):
        x = rng.random()
        if ntasks and x < gen_rate:
            kind = rng.choice(['step', 'step', 'step', 'close', 'drop', 'gc', 'throw'])
            op = {'op': kind, 'task': rng.randrange(ntasks)}
            if kind == 'step':
                op['n'] = rng.choice([1, 1, 2, 4])
            ops.append(op)
            continue
        if x > 0.93:
            ops.append({'op': 'clock_jump', 'to': rng.randrange(len(INSTANTS))})
            continue
        if x > 0.88:
            k = rng.randrange(len(INVARIANTS))
            ops.append({'op': 'invariant', 'k': k, 'doc': rng.randrange(ndocs), 'mode': rng.choice(INVARIANTS[k][2])})
            continue
        op = {'op': 'select', 'sel': rng.randrange(nsel), 'doc': rng.randrange(ndocs),
              'vars': rng.randrange(nvs), 'tz': rng.choice(TZS), 'frag': rng.choice([None, None, None, True, False]),
              'via': rng.choice(['selector', 'selector', 'token', 'select']), 'both': rng.random() < 0.3,
              'item': rng.choice([None, None, None, 0, 1, 2])}
        if selectors[op['sel']].get('cvars') is not None and rng.random() < 0.5:
            op['novars'] = True
        if rng.random() < gen_rate + 0.1 * (gen_rate > 0):
            op['op'] = 'open'
            op['task'] = ntasks
            op['via'] = rng.choice(['selector', 'select'])
            ntasks += 1
        ops.append(op)
    return {'config': {}, 'docs': docs, 'varsets': varsets, 'selectors': selectors, 'ops': ops}


# ---- building inputs --------------------------------------------------------------------------------------

def build_doc(d):
    import xml.etree.ElementTree as ET
    import lxml.etree as LET
    import elementpath
    form = d['form']
    if form.endswith('lxml') or form.startswith('lxml'):
        root = LET.fromstring(d['xml'].encode())
        tree = root.getroottree()
        base = root
    else:
        root = ET.fromstring(d['xml'])
        tree = ET.ElementTree(root)
        base = root
    if form in ('et-elem', 'lxml-elem'):
        return {'root': root, 'base': base, 'etree': LET if 'lxml' in form else ET}
    if form in ('et-tree', 'lxml-tree'):
        return {'root': tree, 'base': base, 'etree': LET if 'lxml' in form else ET}
    nt = elementpath.get_node_tree(root, dict(NSMAP))
    return {'root': nt, 'base': base, 'etree': LET if 'lxml' in form else ET}


def build_vars(vs, docs):
    out = {}
    for k, spec in vs.items():
        if spec[0] == 'node':
            elems = list(docs[spec[1] % len(docs)]['base'].iter())
            elems = [e for e in elems if isinstance(e.tag, str)]
            out[k] = elems[spec[2] % len(elems)]
        elif spec[0] == 'nodes':
            elems = [e for e in docs[spec[1] % len(docs)]['base'].iter() if isinstance(e.tag, str)]
            out[k] = [elems[i % len(elems)] for i in spec[2]]
        else:
            out[k] = X.make_value(spec)
    return out


def parser_class(v):
    import elementpath
    from elementpath.xpath30 import XPath30Parser
    from elementpath.xpath31 import XPath31Parser
    return {'1.0': elementpath.XPath1Parser, '2.0': elementpath.XPath2Parser,
            '3.0': XPath30Parser, '3.1': XPath31Parser}[v]


def index_maps(docs):
    maps = {}
    for di, d in enumerate(docs):
        if not hasattr(d['base'], 'getroottree'):
            # ElementTree elements live as long as the tree; lxml proxies are temporary objects whose
            # id() can be reused, so lxml nodes are located by root identity + path instead
            for idx, e in enumerate(d['base'].iter()):
                maps[id(e)] = (di, idx)
        maps[id(d['root'])] = (di, 'root')
        maps.setdefault(id(d['base']), (di, 0))
    return maps


def canon_res(res, maps):
    def one(x):
        if hasattr(x, 'tag') and hasattr(x, 'attrib'):
            tag = x.tag if isinstance(x.tag, str) else getattr(x.tag, '__name__', 'special')
            if hasattr(x, 'getroottree'):
                # lxml proxies are created on demand: locate by root identity + path, never by id()
                tree = x.getroottree()
                loc = maps.get(id(tree.getroot()))
                if loc is not None:
                    return ['elem', loc[0], tree.getpath(x), str(tag)]
            else:
                loc = maps.get(id(x))
                if loc is not None:
                    return ['elem', loc[0], loc[1], str(tag)]
            return ['elem', -1, -1, str(tag), sorted([str(k), str(v)] for k, v in x.attrib.items()),
                    (x.text or '')[:40], len(x)]
        if hasattr(x, 'getroot'):
            loc = maps.get(id(x))
            if loc is None:
                loc = maps.get(id(x.getroot()))
            return ['doc', loc[0] if loc else -1]
        if isinstance(x, tuple):
            return ['tuple', [one(y) for y in x]]
        if type(x).__name__ in ('_InlineFunction', 'XPathFunction') or (
                hasattr(x, 'arity') and hasattr(x, 'label') and not hasattr(x, 'items')):
            return call_function_item(x, maps)
        return canon(x)
    if isinstance(res, list):
        return [one(x) for x in res]
    return one(res)


def call_function_item(f, maps):
    """A function item is observed by calling it (from Python, on a fresh context) with fixed arguments."""
    import elementpath
    try:
        n = f.arity
        args = [3, 4, 5][:n] if isinstance(n, int) and n <= 3 else None
        if args is None:
            return ['function', n]
        got = f(*args, context=elementpath.XPathContext(None, item=1))
        return ['function', n, 'called', canon_res(got, maps)]
    except Exception as e:
        return ['function', 'call-raised', canon_exc(e)]


def tree_snap(e):
    """Structural snapshot of an etree (independent of the process-global prefix registry)."""
    out = [str(e.tag) if isinstance(e.tag, str) else getattr(e.tag, '__name__', 'special'),
           sorted([str(k), str(v)] for k, v in e.attrib.items()) if isinstance(e.tag, str) else [],
           e.text, e.tail]
    nsmap = getattr(e, 'nsmap', None)
    if nsmap is not None:
        out.append(sorted([str(k), str(v)] for k, v in nsmap.items()))
    out.append([tree_snap(c) for c in e])
    return out


def deep_snap(v, depth=0):
    """Structural snapshot of a caller-owned value: type, text, tzinfo, instance dict and slots."""
    if depth > 4:
        return 'deep'
    if isinstance(v, (list, tuple)):
        return [deep_snap(x, depth + 1) for x in v]
    if hasattr(v, 'tag') and hasattr(v, 'attrib'):
        return ['elem', str(v.tag), sorted((str(k), str(val)) for k, val in v.attrib.items()), v.text, v.tail, len(v)]
    out = [type(v).__name__]
    try:
        out.append(str(v))
    except Exception as e:
        out.append('ERR:' + type(e).__name__)
    if hasattr(v, 'tzinfo'):
        out.append(repr(getattr(v, 'tzinfo', None)))
    d = getattr(v, '__dict__', None)
    if d:
        out.append(sorted((k, repr(val)) for k, val in d.items()))
    for cls in type(v).__mro__:
        for s in getattr(cls, '__slots__', ()):
            if s.startswith('__'):
                continue
            try:
                out.append((s, repr(getattr(v, s))))
            except AttributeError:
                out.append((s, '<unset>'))
    return out


def doc_snap(d):
    base = d['base']
    if hasattr(base, 'getroottree'):
        tree = base.getroottree()
        sibs = [tree_snap(x) for x in base.itersiblings(preceding=True)] + [tree_snap(x) for x in base.itersiblings()]
        return repr([tree_snap(base), sibs])
    return repr(tree_snap(base))


def eval_kwargs(op, docs, variables, now):
    kw = {'variables': variables, 'current_dt': datetime.datetime.fromisoformat(INSTANTS[now]),
          'namespaces': NSMAP_LIVE}
    if op.get('tz') is not None:
        kw['timezone'] = op['tz']
    if op.get('frag') is not None:
        kw['fragment'] = op['frag']
    d = docs[op['doc'] % len(docs)]
    if op.get('item') is not None:
        elems = [e for e in d['base'].iter() if isinstance(e.tag, str)]
        kw['item'] = elems[op['item'] % len(elems)]
    return d['root'], kw


NSMAP_LIVE = dict(NSMAP)


def clean_room(case, op, now):
    """Fresh parser, fresh context, fresh copies of the original inputs."""
    import elementpath
    global NSMAP_LIVE
    NSMAP_LIVE = dict(NSMAP)
    docs = [build_doc(d) for d in case['docs']]
    sel = case['selectors'][op['sel'] % len(case['selectors'])]
    vi = op['vars']
    if op.get('novars') and op.get('via', 'selector') == 'selector' and sel.get('cvars') is not None:
        vi = sel['cvars']       # no variables in the call: the ones given to the Selector constructor apply
    variables = build_vars(case['varsets'][vi % len(case['varsets'])], docs)
    root, kw = eval_kwargs(op, docs, variables, now)
    maps = index_maps(docs)
    try:
        res = elementpath.select(root, sel['expr'], parser=parser_class(sel['v']), **kw)
        items = res if isinstance(res, list) else [res]
        return ['ok', canon_res(res, maps), [canon_res(x, maps) for x in items]]
    except BaseException as e:
        return canon_exc(e)


def run_case(case, world):
    import elementpath
    violations = []
    stats = {'ops': 0, 'evaluations': 0, 'gen_steps': 0, 'clean_room_forks': 0, 'failing_evaluations': 0,
             'snapshots': 0, 'sim_clock_seconds': 0}
    docs = [build_doc(d) for d in case['docs']]
    varsets = [build_vars(vs, docs) for vs in case['varsets']]
    maps = index_maps(docs)
    selectors = {}
    tokens = {}
    tasks = {}
    now = [0]
    refs = {}
    shape = []
    frag_false_on = set()
    kept = []           # (function item, its canonical form when first observed, description)

    def violate(cls, signature, detail, features=()):
        violations.append({'cls': cls, 'signature': signature, 'detail': detail, 'features': sorted(set(features))})

    def ref_for(op):
        key = (op['sel'] % len(case['selectors']), op['doc'] % len(docs), op['vars'] % len(varsets), op.get('tz'),
               op.get('frag'), op.get('item'), now[0], bool(op.get('novars')) and op.get('via', 'selector') == 'selector')
        if key not in refs:
            n = now[0]
            st, val = runner.fork_call(lambda: clean_room(case, op, n), timeout=30)
            refs[key] = val if st == 'ok' else ['ref-failed', st]
            stats['clean_room_forks'] += 1
        return refs[key]

    def snapshot():
        stats['snapshots'] += 1
        return ([doc_snap(d) for d in docs], [dict((k, deep_snap(v)) for k, v in vs.items()) for vs in varsets],
                dict(NSMAP_LIVE))

    def compare_snap(before, after, what, feats):
        for i, (a, b) in enumerate(zip(before[0], after[0])):
            if a != b:
                violate('INPUT_MODIFIED', 'document-modified:%s' % what,
                        'document %d (%s) changed from %r to %r' % (i, case['docs'][i]['form'], a[:300], b[:300]), feats)
        for i, (a, b) in enumerate(zip(before[1], after[1])):
            for k in a:
                if a[k] != b[k]:
                    violate('INPUT_MODIFIED', 'variable-modified:%s:%s' % (what, a[k][0] if a[k] else '?'),
                            'variable $%s changed from %r to %r' % (k, a[k], b[k]), feats + ['var:' + k])
        if before[2] != after[2]:
            violate('INPUT_MODIFIED', 'namespaces-modified:%s' % what, '%r -> %r' % (before[2], after[2]), feats)

    def get_selector(k):
        k = k % len(case['selectors'])
        if k not in selectors:
            s = case['selectors'][k]
            if s.get('cvars') is not None:
                # the deprecated form: variables given to the constructor (the caller's own dictionary)
                import warnings
                with warnings.catch_warnings():
                    warnings.simplefilter('ignore')
                    selectors[k] = elementpath.Selector(s['expr'], namespaces=NSMAP_LIVE, parser=parser_class(s['v']),
                                                        variables=varsets[s['cvars'] % len(varsets)])
            else:
                selectors[k] = elementpath.Selector(s['expr'], namespaces=NSMAP_LIVE, parser=parser_class(s['v']))
        return selectors[k]

    def get_token(k):
        k = k % len(case['selectors'])
        if k not in tokens:
            s = case['selectors'][k]
            tokens[k] = parser_class(s['v'])(namespaces=NSMAP_LIVE).parse(s['expr'])
        return tokens[k]

    def fn_of(op):
        return case['selectors'][op['sel'] % len(case['selectors'])]['expr'][:24]

    def evaluate(op, lazy=False):
        """Returns a value (or a generator when lazy)."""
        sel = case['selectors'][op['sel'] % len(case['selectors'])]
        root, kw = eval_kwargs(op, docs, varsets[op['vars'] % len(varsets)], now[0])
        via = op.get('via', 'selector')
        if via == 'selector':
            s = get_selector(op['sel'])
            kw2 = dict(kw)
            kw2['namespaces'] = NSMAP_LIVE
            if op.get('novars') and sel.get('cvars') is not None:
                del kw2['variables']
            return s.iter_select(root, **kw2) if lazy else s.select(root, **kw2)
        if via == 'token':
            tk = get_token(op['sel'])
            ctx = elementpath.XPathContext(root, **kw)
            return tk.select_results(ctx) if lazy else tk.get_results(ctx)
        if lazy:
            return elementpath.iter_select(root, sel['expr'], parser=parser_class(sel['v']), **kw)
        return elementpath.select(root, sel['expr'], parser=parser_class(sel['v']), **kw)

    for idx, op in enumerate(case['ops']):
        kind = op['op']
        stats['ops'] += 1
        world.event(('op', idx, kind))
        if kind == 'clock_jump':
            old = datetime.datetime.fromisoformat(INSTANTS[now[0]])
            now[0] = op['to'] % len(INSTANTS)
            new = datetime.datetime.fromisoformat(INSTANTS[now[0]])
            stats['sim_clock_seconds'] += int(abs((new - old).total_seconds()))
            shape.append('jump')
            continue
        if kind == 'gc':
            gc.collect()
            shape.append('gc')
            continue
        if kind == 'invariant':
            expr, want, _modes = INVARIANTS[op['k'] % len(INVARIANTS)]
            root_ = docs[op['doc'] % len(docs)]['root']
            stats['evaluations'] += 1
            try:
                if op['mode'] == '1.0':
                    got = elementpath.select(root_, expr, namespaces=dict(NSMAP), parser=elementpath.XPath1Parser)
                elif op['mode'] in ('2.0', '3.0', '3.1'):
                    got = elementpath.select(root_, expr, namespaces=dict(NSMAP), parser=parser_class(op['mode']))
                else:
                    got = elementpath.select(root_, expr, namespaces=dict(NSMAP), parser=elementpath.XPath2Parser,
                                                compatibility_mode=True)
            except Exception as e:
                got = canon_exc(e)
            world.event(('invariant', idx, op['mode'], repr(got)[:60]))
            if got != want:
                violate('FOCUS_LEAK', 'invariant-expression-differs:%s' % op['mode'],
                        '%s is %r, it is %r for every document (each argument is evaluated on the focus of the call)' % (
                            expr, got, want), ['invariant', 'mode:' + op['mode']])
            shape.append('invariant')
            continue
        feats = [kind, 'via:' + str(op.get('via'))]
        before = snapshot()
        if kind in ('select', 'open'):
            sel = case['selectors'][op['sel'] % len(case['selectors'])]
            feats += ['form:' + case['docs'][op['doc'] % len(docs)]['form'], 'v' + sel['v']]
            if op.get('tz'):
                feats.append('timezone')
            if op.get('frag') is not None:
                feats.append('fragment=%s' % op['frag'])
            dk = op['doc'] % len(docs)
            if case['docs'][dk]['form'].startswith('nodetree'):
                feats.append('prebuilt-node-tree')
                if dk in frag_false_on and op.get('frag') is not False:
                    feats.append('prebuilt-node-tree-used-before-with-fragment=False')
                if op.get('frag') is False:
                    frag_false_on.add(dk)
            ref = ref_for(op)
        if kind == 'select':
            stats['evaluations'] += 1
            try:
                res = evaluate(op)
                outcome = ['ok', canon_res(res, maps)]
                items = res if isinstance(res, list) else [res]
                outcome.append([canon_res(x, maps) for x in items])
            except Exception as e:
                outcome = canon_exc(e)
                stats['failing_evaluations'] += 1
            world.event(('result', idx, outcome))
            shape.append('select:' + op.get('via', ''))
            if outcome[0] == 'ok' and len(kept) < 6:
                for x in items:
                    if hasattr(x, 'arity') and hasattr(x, 'label') and not hasattr(x, 'items') and len(kept) < 6:
                        kept.append((x, call_function_item(x, maps), sel['expr']))
            if ref[0] == 'ref-failed':
                world.probe('clean-room-unavailable')
            elif outcome != ref:
                if not (outcome[0] == 'error' and ref[0] == 'error' and outcome[1] != 'ElementPathError'
                        and ref[1] != 'ElementPathError'):
                    violate('HISTORY_DEPENDENT', 'differs-from-clean-room:%s' % op.get('via'),
                            '%s on doc %d gave %r, a fresh parse on a fresh context gives %r' % (
                                sel['expr'], op['doc'] % len(docs), outcome[:2], ref[:2]), feats)
            if op.get('both') and outcome[0] == 'ok':
                # (ii) select == list(iter_select), on the same shared objects
                try:
                    lazy = [canon_res(x, maps) for x in evaluate(op, lazy=True)]
                    if lazy != outcome[2]:
                        violate('SELECT_ITER', 'select-differs-from-iter_select:%s' % op.get('via'),
                                '%s: select gives %r, iter_select gives %r' % (sel['expr'], outcome[2], lazy), feats)
                except Exception as e:
                    violate('SELECT_ITER', 'iter_select-raised:%s' % op.get('via'),
                            '%s: select gives %r, iter_select raised %r' % (sel['expr'], outcome[2], canon_exc(e)), feats)
        elif kind == 'open':
            t = {'state': 'failed', 'items': [], 'op': op, 'gen': None, 'ref': ref, 'feats': feats}
            tasks[op['task']] = t
            try:
                t['gen'] = evaluate(op, lazy=True)
                t['state'] = 'suspended'
            except Exception as e:
                t['error'] = canon_exc(e)
                if ref[0] == 'ok':
                    violate('HISTORY_DEPENDENT', 'open-failed', '%s failed to open: %r; clean room gives %r' % (
                        sel['expr'], t['error'], ref[:2]), feats)
            shape.append('open')
        elif kind in ('step', 'close', 'drop', 'throw'):
            t = tasks.get(op['task'])
            if t is None or t['state'] != 'suspended':
                continue
            feats = t['feats'] + [kind]
            tdk = t['op']['doc'] % len(docs)
            if case['docs'][tdk]['form'].startswith('nodetree') and tdk in frag_false_on \
                    and t['op'].get('frag') is not False \
                    and 'prebuilt-node-tree-used-before-with-fragment=False' not in feats:
                # the node tree was re-parented (recorded finding) while this generator was suspended
                feats.append('prebuilt-node-tree-used-before-with-fragment=False')
            if kind == 'step':
                try:
                    for _ in range(op.get('n', 1)):
                        stats['gen_steps'] += 1
                        try:
                            t['items'].append(canon_res(next(t['gen']), maps))
                        except StopIteration:
                            t['state'] = 'exhausted'
                            break
                except Exception as e:
                    t['state'] = 'raised'
                    t['error'] = canon_exc(e)
                ref = t['ref']
                expr = case['selectors'][t['op']['sel'] % len(case['selectors'])]['expr']
                if ref[0] == 'ok':
                    if t['state'] == 'exhausted' and t['items'] != ref[2]:
                        violate('HISTORY_DEPENDENT', 'interleaved-generator-differs', '%s yielded %r, clean room %r' % (
                            expr, t['items'], ref[2]), feats)
                    elif t['state'] == 'suspended' and t['items'] != ref[2][:len(t['items'])]:
                        violate('HISTORY_DEPENDENT', 'interleaved-generator-differs', '%s yielded prefix %r, clean room %r' % (
                            expr, t['items'], ref[2]), feats)
                    elif t['state'] == 'raised':
                        violate('HISTORY_DEPENDENT', 'interleaved-generator-raised', '%s raised %r after %r, clean room %r' % (
                            expr, t['error'], t['items'], ref[2]), feats)
                elif ref[0] == 'error' and t['state'] == 'exhausted':
                    violate('HISTORY_DEPENDENT', 'interleaved-generator-differs', '%s yielded %r, clean room raises %r' % (
                        expr, t['items'], ref), feats)
                shape.append('step')
            elif kind == 'close':
                try:
                    t['gen'].close()
                except Exception as e:
                    world.event(('close-raised', canon_exc(e)))
                t['state'] = 'closed'
                shape.append('close')
            elif kind == 'throw':
                try:
                    t['gen'].throw(KeyError('thrown into generator'))
                except (KeyError, StopIteration):
                    pass
                except Exception as e:
                    world.event(('throw-raised', canon_exc(e)))
                t['state'] = 'closed'
                shape.append('throw')
            else:
                t['gen'] = None
                t['state'] = 'closed'
                shape.append('drop')
        after = snapshot()
        compare_snap(before, after, kind, feats)
        # values are immutable: a function item returned by an earlier evaluation still behaves as it did
        for fobj, first, desc in kept:
            now_ = call_function_item(fobj, maps)
            if now_ != first:
                violate('EARLIER_RESULT_CHANGED', 'earlier-function-item-changed:%s' % kind,
                        'a function item returned by %s gave %r when first called and gives %r after operation %d (%s)' % (
                            desc, first, now_, idx, kind), feats + ['function-item'])
                kept[:] = [(a, (call_function_item(a, maps) if a is fobj else b), c) for a, b, c in kept]
                break
    nontrivial = []
    if stats['evaluations'] + stats['gen_steps'] >= 3:
        nontrivial = [hashlib.sha256(('|'.join(shape) + repr(case['selectors'])).encode()).hexdigest()[:16]]
    return {'violations': violations, 'stats': stats, 'nontrivial': nontrivial}


def simplify(case):
    # drop documents / variable sets / selectors that the remaining operations do not use; simplify options
    for i, op in enumerate(case['ops']):
        for key, val in (('tz', None), ('frag', None), ('item', None), ('both', False), ('via', 'select')):
            if key in op and op[key] != val and op['op'] in ('select', 'open'):
                ops = list(case['ops'])
                ops[i] = dict(op, **{key: val})
                yield dict(case, ops=ops)
    for i, d in enumerate(case['docs']):
        if d['form'] != 'et-elem':
            docs = list(case['docs'])
            docs[i] = dict(d, form='et-elem')
            yield dict(case, docs=docs)
        if len(d['xml']) > 20:
            for short in ('<r><a x="1">1</a><b n="2">x</b></r>', '<r><a/></r>'):
                if short != d['xml']:
                    docs = list(case['docs'])
                    docs[i] = dict(d, xml=short)
                    yield dict(case, docs=docs)
    for i, vs in enumerate(case['varsets']):
        for k in sorted(vs):
            if k in ('node', 'nodes'):
                continue
            first = X.VARIABLE_SPECS[k][0]
            if vs[k] != first:
                v2 = list(case['varsets'])
                v2[i] = dict(vs, **{k: first})
                yield dict(case, varsets=v2)
