"""
C19 arm (c): environment and entities.

Sentinel environment variables with unique random values are planted in os.environ; generated
expressions (environment-variable($n) for every existing name, available-environment-variables(),
and compositions) evaluated with default settings must never produce a result containing a
sentinel, and must leave os.environ equal. Generated XML texts whose DOCTYPE declares internal,
external (SYSTEM/PUBLIC), parameter and nested entities are passed to fn:parse-xml /
fn:parse-xml-fragment under both etree back ends: the call must be rejected, no result may contain
the expansion marker (also not the content of a marker file referenced as external entity), and the
simulated filesystem/network must see no access. Histories mix these with ordinary evaluations.
"""
import os
import hashlib
import tempfile

from ..canon import canon, canon_exc, is_ep_error

NAME = 'c19c'

MARKER = 'XPANDED-7f3a'
FILE_MARKER = 'FILEMARK-91c2'

ENV_EXPRS = [
    "environment-variable('%s')", "fn:environment-variable('%s')", "string(environment-variable('%s'))",
    "(environment-variable('%s'), 'x')", "for $n in ('%s') return environment-variable($n)",
    "environment-variable(concat('%s', ''))", "('%s') ! environment-variable(.)",
    "let $f := environment-variable#1 return $f('%s')", "for-each(('%s'), environment-variable#1)",
    "exists(environment-variable('%s'))", "apply(environment-variable#1, ['%s'])",
    "function-lookup(xs:QName('fn:environment-variable'), 1)('%s')",
]
ENV_ALL = [
    "available-environment-variables()", "count(available-environment-variables())",
    "available-environment-variables() ! environment-variable(.)",
    "for $n in available-environment-variables() return concat($n, '=', environment-variable($n))",
    "string-join(available-environment-variables(), ',')", "let $g := available-environment-variables#0 return $g()",
    "function-lookup(xs:QName('fn:available-environment-variables'), 0)()",
]


PROLOGS = ['', '', '', '<!-- c -->', '<?pi x?>', '<?xml version="1.0"?>', '<?xml version="1.0"?><!-- c -->', '\n ', ' <!-- a --> ',
           '<?xml version="1.0" encoding="UTF-8"?>\n<?p q?>\n', '\ufeff',
           # an encoding declaration that does not match the text (a str has no encoding; bytes are UTF-8)
           '<?xml version="1.0" encoding="utf-16"?>', '<?xml version="1.0" encoding="UTF-16LE"?>',
           '<?xml version="1.0" encoding="iso-8859-1"?>', '<?xml version="1.0" encoding="us-ascii"?>',
           '<?xml version="1.0" encoding="cp1252"?><!-- c -->', '<?xml version="1.0" encoding="ucs-4"?>',
           '<?xml version="1.1"?>', '<?xml version="1.0" standalone="yes"?>',
           '<?xml version="1.0" encoding="EUC-JP"?>', '<?xml version="1.0" encoding="Shift_JIS"?>',
           '<?xml version="1.0" encoding="GB2312"?>', '<?xml version="1.0" encoding="Big5"?>',
           '<?xml version="1.0" encoding="EUC-KR"?><!-- c -->', '<?xml version="1.0" encoding="no-such-encoding"?>',
           # processing instructions whose target is a name only for XML 1.0 5th edition (libxml2 reads them, expat does not)
           '<?\U00010000 x?>', '<?\u0370 ?>', '<?xml version="1.0"?><?\U00010000 x?>']


def gen_entity_doc(rng, marker_path):
    kind, doc = _gen_entity_doc(rng, marker_path)
    prolog = rng.choice(PROLOGS)
    return kind + ('+prolog' if prolog.strip() else ''), prolog + doc


def _gen_entity_doc(rng, marker_path):
    kind = rng.choice(['internal', 'internal-nested', 'external-system', 'external-public', 'parameter',
                       'parameter-external', 'internal-unused', 'external-dtd', 'attr-default', 'billion',
                       'fifth-edition-doctype', 'fifth-edition-declaration', 'fifth-edition-entity-name', 'two-colons-declaration',
                       'utf16-in-disguise'])
    if kind == 'utf16-in-disguise':
        # a str made of the UTF-16 (or UTF-32) code units of the document: encoded to UTF-8 it is exactly those bytes
        doc = '<?xml version="1.0"?><!DOCTYPE r [<!ENTITY \u0220 "%s">]><r a="&\u0220;">&\u0220;</r>' % MARKER
        return kind, doc.encode(rng.choice(['utf-16-be', 'utf-16-le', 'utf-32-be'])).decode('latin1')
    if kind == 'fifth-edition-doctype':
        n = rng.choice(['\U00010000', '\u0370', 'a\u0370'])
        return kind, '<!DOCTYPE %s [<!ENTITY e "%s">]><%s>&e;</%s>' % (n, MARKER, n, n)
    if kind == 'fifth-edition-declaration':
        d = rng.choice(['<!ELEMENT \u0370 ANY>', '<!ATTLIST r \U00010000 CDATA #IMPLIED>', '<!NOTATION \u0370 SYSTEM "x">'])
        return kind, '<!DOCTYPE r [%s<!ENTITY e "%s">]><r>&e;</r>' % (d, MARKER)
    if kind == 'fifth-edition-entity-name':
        return kind, '<!DOCTYPE r [<!ENTITY \u0370 "%s">]><r>&\u0370;</r>' % MARKER
    if kind == 'two-colons-declaration':
        d = rng.choice(['<!ELEMENT a:b:c ANY>', '<!ATTLIST r a:b:c CDATA #IMPLIED>'])
        return kind, '<!DOCTYPE r [%s<!ENTITY e "%s">]><r>&e;</r>' % (d, MARKER)
    if kind == 'internal':
        return kind, '<!DOCTYPE r [<!ENTITY e "%s">]><r>&e;</r>' % MARKER
    if kind == 'internal-nested':
        return kind, '<!DOCTYPE r [<!ENTITY a "%s"><!ENTITY b "&a;&a;">]><r><c>&b;</c></r>' % MARKER
    if kind == 'external-system':
        return kind, '<!DOCTYPE r [<!ENTITY e SYSTEM "file://%s">]><r>&e;</r>' % marker_path
    if kind == 'external-public':
        return kind, '<!DOCTYPE r [<!ENTITY e PUBLIC "-//X//Y" "http://sim.test/ent.txt">]><r>&e;</r>'
    if kind == 'parameter':
        return kind, '<!DOCTYPE r [<!ENTITY %% p "<!ENTITY e \'%s\'>"> %%p;]><r>&e;</r>' % MARKER
    if kind == 'parameter-external':
        return kind, '<!DOCTYPE r [<!ENTITY %% p SYSTEM "file://%s"> %%p;]><r/>' % marker_path
    if kind == 'internal-unused':
        return kind, '<!DOCTYPE r [<!ENTITY e "%s">]><r>plain</r>' % MARKER
    if kind == 'external-dtd':
        return kind, '<!DOCTYPE r SYSTEM "file://%s"><r/>' % marker_path
    if kind == 'attr-default':
        return kind, '<!DOCTYPE r [<!ENTITY e "%s"><!ATTLIST r a CDATA "&e;">]><r/>' % MARKER
    return kind, '<!DOCTYPE r [<!ENTITY a "%s"><!ENTITY b "&a;&a;&a;&a;"><!ENTITY c "&b;&b;&b;&b;">]><r>&c;</r>' % MARKER


def gen_case(rng, tier):
    thorough = tier == 'thorough'
    nsent = rng.randint(1, 4)
    sentinels = {}
    for k in range(nsent):
        name = rng.choice(['VERIF_SENTINEL_%d' % k, 'SECRET_TOKEN_%d' % k, 'verif.sentinel-%d' % k, 'PATH_%d' % k])
        sentinels[name] = 'S' + hashlib.sha256(('%d/%d' % (rng.randrange(1 << 30), k)).encode()).hexdigest()[:16]
    nops = rng.randint(2, 20 if thorough else 10)
    ops = []
    for _ in range(nops):
        x = rng.random()
        v = rng.choice(['3.0', '3.1', '3.1'])
        if x < 0.35:
            tmpl = rng.choice(ENV_EXPRS)
            if '#' in tmpl or 'function-lookup' in tmpl or 'apply' in tmpl or 'for-each' in tmpl or ' ! ' in tmpl or 'let ' in tmpl:
                v = '3.1'
            ops.append({'op': 'env', 'expr': tmpl, 'name': rng.choice(['$sentinel', '$sentinel', 'PATH', 'HOME', 'NO_SUCH_VAR']),
                        'v': v, 'lazy': rng.random() < 0.3})
        elif x < 0.5:
            e = rng.choice(ENV_ALL)
            ops.append({'op': 'env-all', 'expr': e, 'v': '3.1' if ('#' in e or ' ! ' in e or 'let ' in e or 'lookup' in e) else v,
                        'lazy': rng.random() < 0.3})
        elif x < 0.58:
            ops.append({'op': 'env-allowed', 'name': '$sentinel'})
        elif x < 0.68:
            # one compiled expression (token or Selector, kept for the whole history) evaluated with the
            # environment allowed and with default settings, in any order
            e = rng.choice(ENV_EXPRS + ENV_ALL)
            ops.append({'op': 'env-token', 'expr': e, 'name': '$sentinel', 'slot': rng.randrange(3),
                        'allow': rng.random() < 0.5, 'via': rng.choice(['token', 'selector'])})
        elif x < 0.77:
            # the file that exposes the environment block of the process, read as text
            ops.append({'op': 'proc-environ', 'href': rng.choice(['file:///proc/self/environ', 'file:///proc/self/environ',
                                                                   'file:///proc/thread-self/environ', 'file:///proc/1/environ',
                                                                   'file:///proc/self/task/1/environ', 'file:///proc/self/../self/environ',
                                                                   # the same file behind symbolic links
                                                                   'file:///proc/self/root/proc/self/environ',
                                                                   'file:///proc/thread-self/root/proc/1/environ',
                                                                   # spellings that urlopen unwraps or unquotes
                                                                   'URL:file:///proc/self/environ', '<file:///proc/self/environ>',
                                                                   '<URL:file:///proc/1/environ>', 'file:///proc/self/%65nviron',
                                                                   'file:///%70roc/self/environ', 'file:///proc/%73elf/%65%6Eviron',
                                                                   'URL:file:///proc/thread-self/%65nviron']),
                        'enc': rng.choice(['utf-16-le', 'utf-16-be', 'utf-16-le', 'utf-16', 'utf-8', 'latin1', 'utf-32-le']),
                        'fn': rng.choice(['unparsed-text', 'unparsed-text', 'unparsed-text-lines', 'unparsed-text-available']),
                        'allow': rng.random() < 0.2})
        elif x < 0.9:
            ops.append({'op': 'entity', 'seed': rng.randrange(1 << 30), 'fn': rng.choice(['parse-xml', 'parse-xml', 'parse-xml-fragment']),
                        'backend': rng.choice(['et', 'lxml', 'none']), 'via': rng.choice(['variable', 'literal'])})
        else:
            ops.append({'op': 'plain', 'expr': rng.choice(["parse-xml('<z>1</z>')/z", "count(//*)", "1 + 1",
                                                           "parse-xml-fragment('<a/><b/>')/*"])})
    return {'config': {'sentinels': sentinels}, 'ops': ops}


def run_case(case, world):
    import random
    import elementpath
    import xml.etree.ElementTree as ET
    import lxml.etree as LET
    from elementpath.xpath30 import XPath30Parser
    from elementpath.xpath31 import XPath31Parser
    sentinels = case['config']['sentinels']
    violations = []
    stats = {'ops': 0, 'env_ops': 0, 'entity_ops': 0, 'rejected_entity_docs': 0, 'positive_controls': 0}
    for k, v in sentinels.items():
        os.environ[k] = v
    env0 = dict(os.environ)
    tmpdir = tempfile.mkdtemp(prefix='c19c-')
    marker_path = os.path.join(tmpdir, 'marker.ent')
    with open(marker_path, 'w') as fp:
        fp.write(FILE_MARKER)
    world.fs.add('http://sim.test/ent.txt', FILE_MARKER.encode())
    shape = []
    compiled = {}

    def violate(cls, signature, detail, features=()):
        violations.append({'cls': cls, 'signature': signature, 'detail': detail, 'features': sorted(set(features))})

    def leak_in(text):
        for k, v in sentinels.items():
            if v in text:
                return 'value of ' + k
        return None

    def pcls(v):
        return XPath31Parser if v == '3.1' else XPath30Parser

    try:
        for idx, op in enumerate(case['ops']):
            stats['ops'] += 1
            kind = op['op']
            shape.append(kind)
            world.event(('op', idx, kind))
            root = ET.XML('<r><a>1</a></r>')
            if kind in ('env', 'env-all'):
                stats['env_ops'] += 1
                name = op.get('name')
                if name == '$sentinel':
                    name = sorted(sentinels)[idx % len(sentinels)]
                expr = op['expr'] % name if kind == 'env' else op['expr']
                try:
                    if op.get('lazy'):
                        res = list(elementpath.iter_select(root, expr, parser=pcls(op['v'])))
                    else:
                        res = elementpath.select(root, expr, parser=pcls(op['v']))
                    text = repr(canon(res))
                    world.event(('result', idx, text[:200]))
                except Exception as e:
                    text = repr(canon_exc(e)) + str(e)
                    world.event(('error', idx, text[:200]))
                leak = leak_in(text)
                if leak:
                    violate('ENV_LEAK', 'environment-observable:%s' % kind,
                            '%s exposed the %s with default settings: %s' % (expr, leak, text[:200]), [kind])
                elif kind == 'env-all' and any(k in text for k in sentinels):
                    violate('ENV_LEAK', 'environment-names-observable',
                            '%s lists environment variable names with default settings: %s' % (expr, text[:200]), [kind])
            elif kind == 'env-token':
                stats['env_ops'] += 1
                key = (op['slot'], op['via'])
                if key not in compiled:
                    name = sorted(sentinels)[op['slot'] % len(sentinels)]
                    expr = op['expr'] % name if '%s' in op['expr'] else op['expr']
                    compiled[key] = (expr, XPath31Parser().parse(expr) if op['via'] == 'token' else
                                     elementpath.Selector(expr, parser=XPath31Parser))
                expr, obj = compiled[key]
                try:
                    if op['via'] == 'token':
                        res = obj.get_results(elementpath.XPathContext(root, allow_environment=op['allow']))
                    elif op['allow']:
                        res = obj.select(root, allow_environment=True)
                    else:
                        res = obj.select(root)
                    text = repr(canon(res))
                except Exception as e:
                    text = repr(canon_exc(e)) + str(e)
                world.event(('env-token', idx, op['allow'], text[:120]))
                if op['allow']:
                    if leak_in(text):
                        world.probe('positive-control-saw-sentinel')
                else:
                    leak = leak_in(text)
                    if leak or any(k in text for k in sentinels):
                        violate('ENV_LEAK', 'environment-observable:reused-%s' % op['via'],
                                'the compiled %s exposed %s with default settings after it had been evaluated with '
                                'allow_environment=True: %s' % (expr, leak or 'variable names', text[:200]), [kind])
            elif kind == 'env-allowed':
                # positive control (not part of the property): with allow_environment=True the sentinel IS visible,
                # which proves that the detection above can see a leak
                name = sorted(sentinels)[idx % len(sentinels)]
                tk = XPath31Parser().parse("environment-variable('%s')" % name)
                ctx = elementpath.XPathContext(root, allow_environment=True)
                res = repr(canon(tk.get_results(ctx)))
                if leak_in(res):
                    stats['positive_controls'] += 1
                    world.probe('positive-control-saw-sentinel')
            elif kind == 'proc-environ':
                stats['env_ops'] += 1
                block = b''.join(('%s=%s' % kv).encode('utf-8', 'surrogateescape') + b'\0' for kv in sorted(os.environ.items()))
                block += b'\0' * (-len(block) % 4)
                href = op['href']
                from urllib.parse import unwrap, unquote
                for key in (href, href.replace('/self/../self/', '/self/'), unwrap(href), unquote(href), unquote(unwrap(href))):
                    world.fs.add(key, block)
                enc = op['enc']
                if op['fn'] == 'unparsed-text-available':
                    expr = "unparsed-text-available('%s', '%s')" % (href, enc)
                else:
                    width = 4 if '32' in enc else 2 if '16' in enc else 1
                    order = 'reverse' if enc.endswith('be') else 'data'
                    units = {1: '$c', 2: '($c mod 256, $c idiv 256)',
                             4: '($c mod 256, ($c idiv 256) mod 256, ($c idiv 65536) mod 256, $c idiv 16777216)'}[width]
                    expr = ("string-join(for $t in %s('%s', '%s') return codepoints-to-string(for $c in string-to-codepoints($t), "
                            "$b in %s(%s) return if ($b lt 32 or $b gt 126) then 10 else $b), '|')" % (
                                op['fn'], href, enc, order, units))
                try:
                    res = XPath31Parser().parse(expr).get_results(
                        elementpath.XPathContext(root, allow_environment=op['allow']))
                    text = repr(canon(res))
                except Exception as e:
                    text = repr(canon_exc(e)) + str(e)
                del world.fs.access_log[:]
                world.event(('proc-environ', idx, op['fn'], enc, op['allow'], len(text) > 60))
                if op['allow']:
                    if leak_in(text):
                        world.probe('positive-control-saw-sentinel-in-proc-environ')
                else:
                    leak = leak_in(text)
                    if leak or any(k in text for k in sentinels):
                        violate('ENV_LEAK', 'environment-observable:proc-environ',
                                '%s(%s, %s) exposed %s with default settings' % (op['fn'], op['href'], enc, leak or 'variable names'),
                                [kind, 'enc:' + enc, 'fn:' + op['fn']])
                    elif op['fn'] == 'unparsed-text-available' and 'True' in text:
                        world.probe('proc-environ-reported-available')
            elif kind == 'entity':
                stats['entity_ops'] += 1
                r = random.Random(op['seed'])
                ekind, doc = gen_entity_doc(r, marker_path)
                ctx_root = {'et': ET.XML('<r/>'), 'lxml': LET.XML('<r/>'), 'none': None}[op['backend']]
                kw = {} if ctx_root is not None else {'item': 1}
                try:
                    if op['via'] == 'variable':
                        res = elementpath.select(ctx_root, '%s($x)' % op['fn'], parser=XPath31Parser,
                                                 variables={'x': doc}, **kw)
                    else:
                        res = elementpath.select(ctx_root, "%s('%s')" % (op['fn'], doc.replace("'", "''")),
                                                 parser=XPath31Parser, **kw)
                    items = res if isinstance(res, list) else [res]
                    text = ''
                    for it in items:
                        node = it.getroot() if hasattr(it, 'getroot') else it
                        if hasattr(node, 'tag'):
                            mod = LET if hasattr(node, 'getroottree') else ET
                            text += mod.tostring(node, encoding='unicode')
                        else:
                            text += repr(canon(it))
                    world.event(('entity-result', idx, ekind, text[:120]))
                    feats = ['entity:' + ekind, 'fn:' + op['fn'], 'backend:' + op['backend']]
                    if MARKER in text or FILE_MARKER in text:
                        violate('ENTITY_EXPANDED', 'entity-expanded:%s' % ekind,
                                '%s expanded an entity declared in the DOCTYPE: %r -> %r' % (op['fn'], doc[:120], text[:160]), feats)
                    elif ekind.startswith('external-dtd'):
                        # a DOCTYPE that only names an external subset declares no entity in the text: accepting it
                        # without reading the subset (judged below by the access log) is within the statement
                        world.probe('external-dtd-reference-accepted-without-access')
                    else:
                        violate('ENTITY_EXPANDED', 'entity-declaration-accepted:%s' % ekind,
                                '%s accepted XML text whose DOCTYPE declares entities instead of rejecting it: %r -> %r' % (
                                    op['fn'], doc[:120], text[:160]), feats)
                except Exception as e:
                    stats['rejected_entity_docs'] += 1
                    world.event(('entity-rejected', idx, ekind, canon_exc(e)))
                    if FILE_MARKER in str(e) or MARKER in str(e):
                        violate('ENTITY_EXPANDED', 'entity-content-in-error:%s' % ekind,
                                'the error message carries the entity content: %s' % str(e)[:200],
                                ['entity:' + ekind])
                    if not is_ep_error(e):
                        world.probe('non-ep-exception-logged')
                if world.fs.access_log:
                    violate('ENTITY_EXPANDED', 'external-access:%s' % ekind,
                            'parsing the text accessed %r' % world.fs.access_log[:3], ['entity:' + ekind])
                    del world.fs.access_log[:]
            elif kind == 'plain':
                try:
                    elementpath.select(root, op['expr'], parser=XPath31Parser)
                except Exception as e:
                    world.event(('plain-error', idx, canon_exc(e)))
            if dict(os.environ) != env0:
                violate('ENVIRON', 'environ-changed:%s' % kind, 'os.environ changed during %s' % kind, [kind])
                os.environ.clear()
                os.environ.update(env0)
    finally:
        try:
            os.remove(marker_path)
            os.rmdir(tmpdir)
        except OSError:
            pass
    nontrivial = []
    if stats['env_ops'] + stats['entity_ops'] >= 1:
        nontrivial = [hashlib.sha256(repr(case['ops']).encode()).hexdigest()[:16]]
    return {'violations': violations, 'stats': stats, 'nontrivial': nontrivial}
