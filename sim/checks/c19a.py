"""
C19 arm (a): collation histories under locale faults.

Operations on the real API (select / iter_select / parser.parse) using every collation-taking
construct, interleaved lazy generators (open/step/close/throw/drop/gc), injected locale.Error
on the n-th setlocale, all under a per-run installed-locale configuration. Invariants after
every operation: no lock held and LC_COLLATE restored once nothing is suspended, decimal
context / os.environ / real C locale untouched, the operation terminated, and its value equals
the value the same call gives in a pristine process (forked before the history started).
"""
import gc
import os
import decimal
import hashlib

from ..world import SimDeadlock, SimHang, SimCrash, ALL_LOCALES, locale_identity
from ..gen.collexpr import CollGen, UCA, HTML_CI, lit
from ..canon import canon, canon_exc, innermost_ep_frame
from .. import runner

NAME = 'c19a'

DEFCOLLS = [None, None, None, UCA, UCA + '?lang=it_IT', 'C', HTML_CI, 'it_IT.UTF-8', 'xx_XX.UTF-8']

# evaluations that exercise the decimal module heavily: the decimal context must be left as found
DECIMAL_EXPRS = [
    "format-number(123456789012345678901234567890.125, '#.00')", "format-number(1 div 3, '0.0000000000000000000000000000000')",
    "format-number(12345678901234567890123456789012345, '#,##0')", "xs:decimal('123456789012345678901234567890.123456789') * 3",
    "round-half-to-even(12345678901234567890.12345678901234567890, 15)", "round(1234567890123456789012345678.5)",
    "avg((0.1, 0.2, 0.3333333333333333333333333333))", "sum((1e0, 0.1, xs:decimal('1E-30')))", "1 div 3.0",
    "xs:decimal(1e30) + 0.5", "12345678901234567890123456789 idiv 7", "123456789012345678901234567890 mod 97",
    "xs:integer(xs:decimal('99999999999999999999999999999.9'))", "format-integer(123456789012345678901234567890, '#,##0')",
    "math:pow(2, 100)", "xs:double('1e308') * 10", "xs:decimal('0.000000000000000000000000000001') div 3",
    "string(xs:decimal('1.000000000000000000000000000000'))", "abs(-12345678901234567890123456789.123456789)",
    "floor(12345678901234567890123456789.9) + ceiling(0.1)", "xs:float('3.4e38') * 10",
    # operations on big decimals that fail half-way (a zero divisor, an overflow, an invalid operation)
    "1000000000000000000000000000000.5 mod 0.0", "1000000000000000000000000000000.5 mod 7", "1000000000000000000000000000000.5 idiv 0.0",
    "1000000000000000000000000000000.5 div 0.0", "xs:decimal('1E+40') mod xs:decimal('0')", "12345678901234567890123456789012345.5 mod 0.5",
    "round(xs:decimal('1E+40') div 0)", "xs:decimal('9' || '9999999999999999999999999999999999999999') * xs:decimal('1E+999999')",
    "format-number(xs:decimal('1E+40') mod 0.0, '0')", "avg((xs:decimal('1E+40'), 'x'))", "sum((xs:decimal('1E+40'), xs:dayTimeDuration('PT1S')))",
    "xs:decimal('1E+40') idiv xs:decimal('1E-40')", "1000000000000000000000000000000.5 mod xs:double('NaN')",
]

PROBES = [
    ("compare('a', 'B', 'C')", '2.0'),
    ("compare('a', 'B', '%s')" % UCA, '2.0'),
    ("distinct-values(('a', 'A', 'a'), 'C.UTF-8')", '3.0'),
    ("contains('ab', 'B', '%s')" % HTML_CI, '2.0'),
    ("index-of(('a', 'b'), 'b', 'POSIX')", '3.1'),
    ("compare('a', 'B')", '3.1'),
    ("1 div 3.0", '3.1'),
    ("avg((0.1, 0.2, 0.3333333333333333333333333333))", '3.1'),
]


def gen_case(rng, tier):
    thorough = tier == 'thorough'
    k = rng.choice([0, 0, 1, 2, 3, 5, 8])
    installed = sorted(rng.sample(ALL_LOCALES, k))
    initial = 'C'
    if installed and rng.random() < 0.2:
        initial = rng.choice(installed + ['C.UTF-8'])
    fault_rate = rng.choice([0, 0, 0.08, 0.25])
    gen_rate = rng.choice([0, 0.2, 0.5])
    nops = rng.randint(2, 30 if thorough else 14)
    lock_bias = rng.choice([0.3, 0.6, 0.9])
    ops = []
    ntasks = 0
    for _ in range(nops):
        version = rng.choice(['2.0', '3.0', '3.1', '3.1'])
        x = rng.random()
        if ntasks and x < gen_rate:
            t = rng.randrange(ntasks)
            kind = rng.choice(['step', 'step', 'step', 'close', 'throw', 'drop', 'gc'])
            op = {'op': kind, 'task': t}
            if kind == 'step':
                op['n'] = rng.choice([1, 1, 2, 5])
                if rng.random() < fault_rate:
                    op['fault'] = [rng.randint(1, 3)]
            ops.append(op)
            continue
        g = CollGen(rng, version, installed, lock_bias)
        expr = g.expr()
        if rng.random() < 0.12:
            expr = rng.choice(DECIMAL_EXPRS)
            version = '3.1'
        op = {'op': 'eval', 'expr': expr, 'v': version, 'defcoll': rng.choice(DEFCOLLS)}
        if x < gen_rate + 0.25 * (gen_rate > 0):
            op['op'] = 'open'
            op['task'] = ntasks
            ntasks += 1
        elif rng.random() < 0.1:
            op['op'] = 'parse'
        if rng.random() < fault_rate:
            op['fault'] = sorted(set(rng.randint(1, 4) for _ in range(rng.choice([1, 1, 2]))))
        ops.append(op)
    # the locale that setlocale(category, '') selects (LANG / LC_ALL of the environment) need not be the current one
    user_default = rng.choice(['C', 'C'] + list(installed)) if installed else 'C'
    return {'config': {'installed': installed, 'initial': initial, 'user_default': user_default}, 'ops': ops}


def simplify(case):
    """Candidate simplifications: drop installed locales, reset initial, drop faults/defcoll."""
    cfg = case['config']
    for i in range(len(cfg['installed'])):
        if cfg['installed'][i] == cfg['initial']:
            continue
        c = dict(case)
        c['config'] = dict(cfg, installed=cfg['installed'][:i] + cfg['installed'][i + 1:])
        yield c
    if cfg['initial'] != 'C':
        c = dict(case)
        c['config'] = dict(cfg, initial='C')
        yield c
    for i, op in enumerate(case['ops']):
        for key in ('fault', 'defcoll'):
            if op.get(key):
                ops = list(case['ops'])
                ops[i] = {k: v for k, v in op.items() if k != key}
                yield dict(case, ops=ops)
        if op.get('op') == 'step' and op.get('n', 1) > 1:
            ops = list(case['ops'])
            ops[i] = dict(op, n=1)
            yield dict(case, ops=ops)
        if op.get('op') in ('parse', 'open') and False:
            pass


def _parser_class(v):
    import elementpath
    from elementpath.xpath3 import XPath3Parser
    from elementpath.xpath30 import XPath30Parser
    from elementpath.xpath31 import XPath31Parser
    return {'1.0': elementpath.XPath1Parser, '2.0': elementpath.XPath2Parser,
            '3.0': XPath30Parser, '3.1': XPath31Parser}[v]


def _kwargs(op):
    kw = {}
    if op.get('defcoll') is not None:
        kw['default_collation'] = op['defcoll']
    return kw


def _ref_eval(op):
    import elementpath
    try:
        res = elementpath.select(None, op['expr'], parser=_parser_class(op['v']), item=1, **_kwargs(op))
        items = res if isinstance(res, list) else [res]
        return ['ok', canon(res), [canon(x) for x in items]]
    except (SimDeadlock, SimHang) as e:
        return ['ref-' + type(e).__name__, str(e)]
    except BaseException as e:
        return canon_exc(e)


def _ref_parse(op):
    try:
        _parser_class(op['v'])(**_kwargs(op)).parse(op['expr'])
        return ['ok', 'parsed']
    except (SimDeadlock, SimHang) as e:
        return ['ref-' + type(e).__name__, str(e)]
    except BaseException as e:
        return canon_exc(e)


def _deadlock_sig(world, exc, tasks):
    owner = getattr(exc, 'owner', '?')
    me = getattr(exc, 'task', world.task)
    if owner == me:
        kind = 'same-evaluation'
    elif owner.startswith('gen:') and tasks.get(int(owner[4:]), {}).get('state') in ('suspended', 'dropped'):
        kind = 'suspended-generator'
    else:
        kind = 'finished-evaluation'
    return kind


def run_case(case, world):
    import elementpath
    cfg = case['config']
    loc = world.locale
    loc.reset(installed=cfg['installed'], initial=cfg['initial'], user_default=cfg.get('user_default', 'C'))
    loc.log = world.event
    real0 = world.real_lc_collate()
    ctx0 = decimal.getcontext()
    ctx_snap = (ctx0.prec, ctx0.rounding, ctx0.Emin, ctx0.Emax, ctx0.capitals, ctx0.clamp,
                tuple(sorted(str(k) for k, v in ctx0.traps.items() if v)))
    env0 = dict(os.environ)
    initial_ident = loc.identity()
    violations = []
    stats = {'ops': 0, 'evals': 0, 'gen_steps': 0, 'refs': 0, 'faulted_ops': 0, 'locking_ops': 0,
             'restore_refused': 0}
    states = set()
    shape = []

    def violate(cls, signature, detail, features=()):
        violations.append({'cls': cls, 'signature': signature, 'detail': detail, 'features': list(features)})

    # ---- pristine references (this process has evaluated nothing yet) -------------------------
    refs = {}

    def ref_for(op, parse=False):
        key = (op['expr'], op['v'], op.get('defcoll'), parse)
        if key not in refs:
            fn = (lambda: _ref_parse(op)) if parse else (lambda: _ref_eval(op))
            st, val = runner.fork_call(fn, timeout=30)
            refs[key] = val if st == 'ok' else ['ref-failed', st]
            stats['refs'] += 1
        return refs[key]

    for op in case['ops']:
        if op['op'] in ('eval', 'open'):
            ref_for(op)
        elif op['op'] == 'parse':
            ref_for(op, True)
    probe_ops = [{'expr': e, 'v': v} for e, v in PROBES]
    for op in probe_ops:
        ref_for(op)

    tasks = {}
    restore_refused = [False]
    ever_refused = [False]      # an injected fault refused to restore the initial locale at some point of the history

    def check_invariants(opname, feats):
        live = [t for t in tasks.values() if t['state'] in ('suspended', 'dropped')]
        held = world.locks_held()
        states.add('%s|%s|%d' % (bool(held), loc.identity(), len(live)))
        if held:
            owners = [str(lk.owner_task) for lk in world.locks if lk.locked()]
            live_names = ['gen:%d' % k for k, t in tasks.items() if t['state'] in ('suspended', 'dropped')]
            if not live or any(o not in live_names for o in owners):
                violate('LOCK_LEAK', 'lock-leak:%s' % opname,
                        'lock(s) %r still held by %r after %s with live tasks %r' % (held, owners, opname, live_names),
                        feats)
                for lk in world.locks:      # resync so the history can go on
                    if lk.locked() and str(lk.owner_task) not in live_names:
                        lk.owner = None
                        lk.owner_task = None
                        lk.count = 0
                return
            world.probe('generator-suspended-holding-lock')
        else:
            if loc.identity() != initial_ident:
                if restore_refused[0]:
                    stats['restore_refused'] += 1
                    world.probe('restore-refused-relaxation')
                else:
                    violate('LOCALE_LEAK', 'locale-leak:%s' % opname,
                            'LC_COLLATE is %r (identity %s) but was %r at start; lock free; after %s' % (
                                loc.current[_LC_COLLATE], loc.identity(),
                                cfg['initial'], opname), feats)
                loc.current[_LC_COLLATE] = cfg['initial']
        if world.real_lc_collate() != real0:
            violate('REAL_LOCALE', 'real-locale-changed', 'the real C library locale changed: %r' % world.real_lc_collate())
        c = decimal.getcontext()
        snap = (c.prec, c.rounding, c.Emin, c.Emax, c.capitals, c.clamp,
                tuple(sorted(str(k) for k, v in c.traps.items() if v)))
        if snap != ctx_snap:
            violate('DECIMAL_CTX', 'decimal-context-changed:%s' % opname, '%r -> %r' % (ctx_snap, snap), feats)
            decimal.setcontext(decimal.Context(prec=ctx_snap[0], rounding=ctx_snap[1], Emin=ctx_snap[2],
                                               Emax=ctx_snap[3], capitals=ctx_snap[4], clamp=ctx_snap[5]))
        if dict(os.environ) != env0:
            violate('ENVIRON', 'environ-changed:%s' % opname, 'os.environ changed', feats)

    def arm_faults(op):
        restore_refused[0] = False
        del loc.fault_values[:]
        if op.get('fault'):
            stats['faulted_ops'] += 1
            loc.fail_plan = set(loc.set_calls + k for k in op['fault'])

    def disarm_faults(op):
        loc.fail_plan = set()
        for v in loc.fault_values:
            if locale_identity(v) == initial_ident:
                restore_refused[0] = True
                ever_refused[0] = True

    def fn_of(expr):
        return expr.split('(')[0].strip() if '(' in expr else 'expr'

    def compare_outcome(op, outcome, ref, what):
        faulted = bool(op.get('fault'))
        if ref and ref[0] in ('ref-failed', 'ref-SimDeadlock', 'ref-SimHang'):
            # the pristine evaluation itself did not terminate: nothing to compare against
            world.probe('pristine-reference-unavailable')
            return
        if outcome == ref:
            return
        if faulted and outcome[0] == 'error':
            world.probe('faulted-op-failed-cleanly')
            return
        if faulted and loc.faults_fired and outcome[0] == 'ok' and ref[0] == 'ok' and 'collation/UCA' in op['expr'] \
                and 'fallback=no' not in op['expr']:
            # a UCA collation whose locale could not be set falls back (the specification allows it unless
            # fallback=no): another value than the fault-free reference, not judged
            world.probe('faulted-uca-collation-fell-back')
            return
        if outcome[0] == 'error' and ref[0] == 'error' and outcome[1] != 'ElementPathError' \
                and ref[1] != 'ElementPathError':
            return
        violate('RESULT_DIFF', 'result-diff:%s:%s' % (what, fn_of(op['expr'])),
                '%s gave %r, pristine process gives %r' % (op['expr'], outcome, ref),
                ['faulted'] if faulted else [])

    lock_acq0 = [0]

    def total_acquires():
        return sum(lk.acquires for lk in world.locks)

    stop = False
    for idx, op in enumerate(case['ops']):
        kind = op['op']
        stats['ops'] += 1
        feats = [kind]
        if op.get('fault'):
            feats.append('faulted')
        world.event(('op', idx, kind))
        acq_before = total_acquires()
        try:
            if kind in ('eval', 'parse'):
                world.task = 'main'
                arm_faults(op)
                stats['evals'] += 1
                try:
                    if kind == 'eval':
                        outcome = ['ok', canon(elementpath.select(None, op['expr'], parser=_parser_class(op['v']),
                                                                  item=1, **_kwargs(op)))]
                        if ref_for(op)[0] == 'ok':
                            outcome.append(ref_for(op)[2])      # item list: compared on the iter path only
                    else:
                        _parser_class(op['v'])(**_kwargs(op)).parse(op['expr'])
                        outcome = ['ok', 'parsed']
                except (SimDeadlock, SimHang):
                    raise
                except BaseException as e:
                    outcome = canon_exc(e)
                finally:
                    disarm_faults(op)
                world.event(('result', idx, outcome))
                compare_outcome(op, outcome, ref_for(op, kind == 'parse'), kind)
                shape.append(kind + ':' + fn_of(op['expr']) + ('!' if op.get('fault') else ''))
            elif kind == 'open':
                world.task = 'main'
                arm_faults(op)
                t = {'state': 'failed', 'items': [], 'op': op, 'gen': None}
                tasks[op['task']] = t
                try:
                    t['gen'] = elementpath.iter_select(None, op['expr'], parser=_parser_class(op['v']), item=1,
                                                       **_kwargs(op))
                    t['state'] = 'suspended'
                except (SimDeadlock, SimHang):
                    raise
                except BaseException as e:
                    outcome = canon_exc(e)
                    world.event(('open-failed', idx, outcome))
                    ref = ref_for(op)
                    if ref[0] == 'ok' and not op.get('fault'):
                        # parse-time failure where the pristine evaluation succeeds
                        compare_outcome(op, outcome, ref, 'open')
                finally:
                    disarm_faults(op)
                shape.append('open:' + fn_of(op['expr']))
            elif kind in ('step', 'close', 'throw', 'drop'):
                t = tasks.get(op['task'])
                if t is None or t['state'] != 'suspended':
                    continue
                world.task = 'gen:%d' % op['task']
                gen = t['gen']
                if kind == 'step':
                    arm_faults(op)
                    t['faulted'] = t.get('faulted') or bool(op.get('fault'))
                    try:
                        for _ in range(op.get('n', 1)):
                            stats['gen_steps'] += 1
                            try:
                                item = next(gen)
                            except StopIteration:
                                t['state'] = 'exhausted'
                                break
                            t['items'].append(canon(item))
                    except (SimDeadlock, SimHang):
                        raise
                    except BaseException as e:
                        t['state'] = 'raised'
                        t['error'] = canon_exc(e)
                    finally:
                        disarm_faults(op)
                    world.event(('step', idx, t['state'], list(t['items'])))
                    ref = ref_for(t['op'])
                    fake = dict(t['op'], fault=[1] if t.get('faulted') else None)
                    if ref[0] == 'ok':
                        ref = ['ok', ref[2]]
                    if t['state'] == 'exhausted':
                        compare_outcome(fake, ['ok', t['items']], ref, 'iter')
                    elif t['state'] == 'raised':
                        compare_outcome(fake, t['error'], ref, 'iter')
                    elif ref[0] == 'ok' and isinstance(ref[1], list) and ref[1][:len(t['items'])] != t['items'] \
                            and not t.get('faulted'):
                        compare_outcome(fake, ['ok', t['items']], ['ok', ref[1][:len(t['items'])]], 'iter-prefix')
                    shape.append('step')
                elif kind == 'close':
                    try:
                        gen.close()
                    except (SimDeadlock, SimHang):
                        raise
                    except BaseException as e:
                        world.event(('close-raised', canon_exc(e)))
                    t['state'] = 'closed'
                    shape.append('close')
                elif kind == 'throw':
                    try:
                        gen.throw(SimCrash('thrown into generator'))
                    except SimCrash:
                        pass
                    except StopIteration:
                        pass
                    except (SimDeadlock, SimHang):
                        raise
                    except BaseException as e:
                        world.event(('throw-raised', canon_exc(e)))
                    t['state'] = 'closed'
                    shape.append('throw')
                elif kind == 'drop':
                    t['gen'] = None
                    del gen
                    t['state'] = 'closed'    # CPython finalises a generator when its last reference goes
                    shape.append('drop')
                world.task = 'main'
            elif kind == 'gc':
                gc.collect()
                shape.append('gc')
        except SimDeadlock as e:
            loc.fail_plan = set()
            owner_kind = _deadlock_sig(world, e, tasks)
            expr = op.get('expr') or tasks.get(op.get('task'), {}).get('op', {}).get('expr', '?')
            violate('DEADLOCK', 'deadlock:owner=%s' % owner_kind,
                    'operation %d (%s %s) can never finish: %s' % (idx, kind, expr, e),
                    feats + ['owner=' + owner_kind, 'blocked-in=' + innermost_ep_frame(e)])
            stop = True
        except SimHang as e:
            violate('HANG', 'hang:%s' % kind, 'operation %d exceeded its step budget: %s' % (idx, e), feats)
            stop = True
        if total_acquires() > acq_before:
            stats['locking_ops'] += 1
        if stop:
            break
        check_invariants(kind, feats)

    # ---- end of history: faults stop, everything is closed, recovery probe --------------------------
    if not stop:
        world.task = 'main'
        for k, t in tasks.items():
            if t['state'] == 'suspended':
                try:
                    t['gen'].close()
                except BaseException as e:
                    world.event(('final-close-raised', canon_exc(e)))
                t['state'] = 'closed'
        gc.collect()
        restore_refused[0] = False
        check_invariants('end-of-history', ['end'])
        for op in probe_ops:
            try:
                outcome = ['ok', canon(elementpath.select(None, op['expr'], parser=_parser_class(op['v']), item=1))]
                if ref_for(op)[0] == 'ok':
                    outcome.append(ref_for(op)[2])
            except SimDeadlock as e:
                violate('RECOVERY', 'recovery:deadlock', 'recovery probe %s can never finish: %s' % (op['expr'], e))
                break
            except BaseException as e:
                outcome = canon_exc(e)
            ref = ref_for(op)
            if outcome != ref and ever_refused[0]:
                # the simulated OS refused to go back to the initial locale once: the spelling (or the locale itself)
                # that is left is not the library's doing, and the default collation of new parsers follows it
                world.probe('recovery-not-compared-after-refused-restore')
            elif outcome != ref:
                violate('RECOVERY', 'recovery:result-diff', 'after the history %s gives %r, pristine %r' % (
                    op['expr'], outcome, ref))
                break
    stats['lock_acquires'] = total_acquires()
    stats['setlocale_calls'] = loc.set_calls
    stats['strcoll_calls'] = loc.strcoll_calls
    nontrivial = []
    if stats['lock_acquires'] > 0:
        nontrivial = [hashlib.sha256('|'.join(shape + cfg['installed'] + [cfg['initial']]).encode()).hexdigest()[:16]]
    seam = [(e[0], e[-1]) for e in world.events if e[0] in ('lock-acquired', 'lock-blocked', 'lock-released',
                                                             'setlocale', 'setlocale-fault', 'step')]
    inter = hashlib.sha256(repr(seam).encode()).hexdigest()[:16] if seam else None
    return {'violations': violations, 'stats': stats, 'nontrivial': nontrivial, 'states': sorted(states),
            'interleaving': inter}


import _locale as _cl
_LC_COLLATE = _cl.LC_COLLATE
