#!/venv/bin/python
"""Development helper (not a registered check): samples the C03 function-call generator against $VERIF_REPO outside the
simulator and prints the distinct non-ElementPathError escapes by innermost frame.  usage: survey_c03.py [N] [seed] [fun|op|fmt|rx]"""
import sys, os, random, collections, signal, traceback
from concurrent.futures import ProcessPoolExecutor
sys.path.insert(0, '/verif')
sys.path.insert(0, os.environ.get('VERIF_REPO', '/repo'))


def work(args):
    seed, n, mode = args
    import resource
    resource.setrlimit(resource.RLIMIT_AS, (4 << 30, 4 << 30))
    from sim.checks import c03
    import elementpath
    from elementpath.xpath31 import XPath31Parser
    from elementpath.xpath30 import XPath30Parser
    import xml.etree.ElementTree as ET
    root = ET.fromstring(c03.DOC)
    P = {'1.0': elementpath.XPath1Parser, '2.0': elementpath.XPath2Parser, '3.0': XPath30Parser, '3.1': XPath31Parser}
    rng = random.Random(seed)
    bad = {}

    def h(*a):
        raise TimeoutError
    signal.signal(signal.SIGALRM, h)
    for i in range(n):
        v = rng.choice(['1.0', '2.0', '3.0', '3.1', '3.1', '3.1'])
        src = c03.funcall_source(rng, v) if mode == 'fun' else c03.format_source(rng) if mode == 'fmt' else c03.regex_source(rng) if mode == 'rx' else c03.datearith_source(rng) if mode == 'dt' else c03.opcall_source(rng, v)
        if mode in ('fmt', 'rx', 'dt'):
            v = '3.1'
        p = P[v](namespaces={'p': 'http://example.com/ns'})
        signal.alarm(5)
        try:
            tk = p.parse(src)
            tk.get_results(elementpath.XPathContext(root))
        except (elementpath.ElementPathError, MemoryError):
            pass
        except BaseException as e:
            tb = traceback.extract_tb(e.__traceback__)
            fr = [f for f in tb if '/elementpath/' in f.filename]
            f = fr[-1] if fr else tb[-1]
            key = (type(e).__name__, f.filename.split('/elementpath/')[-1], f.name)
            if key not in bad:
                bad[key] = [0, v, src, str(e)[:100], f.lineno]
            bad[key][0] += 1
        signal.alarm(0)
    return bad


if __name__ == '__main__':
    n = int(sys.argv[1]) if len(sys.argv) > 1 else 100000
    seed = int(sys.argv[2]) if len(sys.argv) > 2 else 1
    mode = sys.argv[3] if len(sys.argv) > 3 else 'fun'
    tot = {}
    with ProcessPoolExecutor(16) as ex:
        for bad in ex.map(work, [(seed * 1000 + i, n // 16, mode) for i in range(16)]):
            for k, v in bad.items():
                if k in tot:
                    tot[k][0] += v[0]
                else:
                    tot[k] = v
    for k, v in sorted(tot.items(), key=lambda kv: -kv[1][0]):
        print(v[0], k, v[4], '|', v[1], '|', v[2], '|', v[3])
    print(len(tot), 'distinct')
