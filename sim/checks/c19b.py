"""
C19 arm (b): thread interleavings of independent Selectors.

2-4 real threads under the baton scheduler (pre-emption at every line event inside elementpath
and at every seam call). The Selector objects are constructed BEFORE the threads start, one set per
thread (own parser, own token tree): the statement promises concurrent *evaluation* of independent
Selector objects, not concurrent construction. Oracle = serialisability at evaluation granularity:
every evaluation is first compared with its isolated result in a pristine process; on any difference
the sequential interleavings of whole evaluations are enumerated in pristine processes and the run is
accepted if one of them explains the observed result vector. End-of-run invariants: no lock held,
LC_COLLATE restored, per-thread decimal context and os.environ unchanged, no thread blocked forever.
"""
import os
import json
import decimal
import hashlib
import datetime
import itertools

from ..world import SimDeadlock, SimHang, ALL_LOCALES
from ..gen import xmldoc as X
from ..canon import canon, canon_exc
from ..sched import BatonScheduler
from .. import runner

NAME = 'c19b'

DOCS = ['<r><a x="1">1</a><b n="2">x</b><c>3</c><a x="2">4</a></r>',
        '<r xmlns:p="http://example.com/ns"><p:a>1</p:a><b><c n="5"/></b>tail</r>']
NOW = '2020-01-01T00:00:00+00:00'

EXTRA = [
    "matches('abc', '\\p{L}+')", "replace('a1b2', '\\d', 'x')", "tokenize('a b  c')", "matches('Ab', '^[\\w-[b]]+$')",
    "analyze-string('a1b22', '\\d+')//*:match/string()", "json-to-xml('{\"a\": [1, 2]}')//*:number/string()",
    "xml-to-json(json-to-xml('[1, true, null]'))", "format-number(1234.5, '#,##0.00')", "format-integer(12, 'w')",
    "format-date(xs:date('2020-02-29'), '[D1o] [MNn] [Y]')", "current-dateTime()", "serialize((//a)[1])",
    "parse-xml('<z><y>1</y></z>')//y/string()", "1 instance of xs:integer", "(1, 'a') instance of xs:anyAtomicType+",
    "xs:date('2000-01-01') + xs:dayTimeDuration('P1D')", "adjust-dateTime-to-timezone(xs:dateTime('2000-01-01T12:00:00Z'), xs:dayTimeDuration('PT2H'))",
    "1 div 3", "round(2.5)", "xs:decimal('1.10') * 3", "sum((0.1, 0.2, 0.3))", "xs:NCName('a')", "xs:language('en-US')",
    "xs:integer('12') idiv 5", "string-join(sort(('b', 'a', 'C')), ',')", "map:keys(map{'a': 1, 'b': 2})",
    "array:flatten([1, [2, 3]])", "fold-left(1 to 5, 0, function($a, $b) { $a + $b })", "for-each(1 to 3, function($x) { $x * $x })",
    "distinct-values((1, 1.0, 'a', 'a'))", "deep-equal(//a, //a)", "index-of((1, 2, 1), 1)", "upper-case('straße')",
    "normalize-unicode('é', 'NFD')", "string-to-codepoints('aé😀')", "encode-for-uri('a b/ü')", "xs:hexBinary('FF') = xs:hexBinary('ff')",
    "xs:QName('xs:a')", "years-from-duration(xs:yearMonthDuration('P1Y2M'))", "math:sqrt(16)", "math:pow(2, 10)",
    "let $m := map{'k': [1, 2, 3]} return $m?k?2", "[1, 2, 3]?*", "path((//a)[2])", "generate-id(/r) = generate-id(/r)",
    "//a[@x = '2']/string()", "count(//*[. = '1'])", "//b/@n + 1", "some $e in //* satisfies $e = 'x'",
    "xs:dateTime('2000-01-01T00:00:00') - xs:dateTime('1999-12-31T00:00:00')", "implicit-timezone()",
    "contains('abc', 'B', 'http://www.w3.org/2005/xpath-functions/collation/html-ascii-case-insensitive')",
    "random-number-generator(42)?number", "random-number-generator(7)?number", "random-number-generator(7)?permute(1 to 5)",
    "default-collation()", "compare('a', 'B')", "string-join(sort(('b', 'a', 'C', 'ä')), ',')", "max(('a', 'B', 'c'))",
]
COLLATION_EXPRS = [
    "compare('a', 'B', '%s')", "string-join(sort(('b', 'a', 'C', 'ä'), '%s'), ',')", "distinct-values(('a', 'A', 'b'), '%s')",
    "index-of(('a', 'B', 'b'), 'b', '%s')", "contains('abc', 'B', '%s')", "max(('a', 'B', 'c'), '%s')",
    "deep-equal(('a', 'b'), ('A', 'b'), '%s')", "substring-before('aXb', 'x', '%s')",
    "for $s in ('a', 'B') return compare($s, 'b', '%s')",
]


FAMILIES = {
    'rng': ["random-number-generator(42)?number", "random-number-generator(7)?number", "random-number-generator(7)?permute(1 to 5)",
            "random-number-generator(1)?next()?number"],
    'regex': ["matches('abc', '\\p{L}+')", "replace('a1b2', '\\d', 'x')", "tokenize('a b  c')", "matches('Ab', '^[\\w-[b]]+$')",
              "analyze-string('a1b22', '\\d+')//*:match/string()", "matches('x', '\\p{IsGreek}|\\P{Lu}')"],
    # patterns that depend on the context are translated at evaluation time, inside the threads: the lazily built
    # tables behind \\w \\d \\s \\i \\c \\p{..} are then built (once per process) while other threads need them
    'regexdyn': ["matches('a.b_1', concat('^[\\w.]+$', substring(name(/*), 99)))", "matches('12-3', concat('^[\\d-]+$', substring(name(/*), 99)))",
                 "replace('a b\tc', concat('[\\s]', substring(name(/*), 99)), '_')", "tokenize('a1b22c', concat('\\d+', substring(name(/*), 99)))",
                 "matches('xml:id', concat('^\\i\\c*$', substring(name(/*), 99)))", "matches('é', concat('^\\p{L}$', substring(name(/*), 99)))",
                 "matches('A1', concat('^[\\p{Lu}\\d]+$', substring(name(/*), 99)))", "matches('_x', concat('^[^\\W]+$', substring(name(/*), 99)))",
                 "matches('a-b', concat('^[\\w-[_]]+-[\\w]+$', substring(name(/*), 99)))", "count(tokenize('a, b;c', concat('[\\W\\s]+', substring(name(/*), 99))))",
                 "matches('α', concat('^\\p{IsGreek}$', substring(name(/*), 99)))",
                 "matches('abc', concat('\\p{IsNoBlock}', substring(name(/*), 99)))", "matches('abc', concat('^\\P{IsNoBlock}+$', substring(name(/*), 99)))",
                 "matches('abc', concat('[\\p{IsNoBlock}a]', substring(name(/*), 99)))", "replace('ab12', concat('[\\D]', substring(name(/*), 99)), '#')",
                 # characters of the last blocks of the table: a No_Block that is observed while it is being built still has them
                 "matches(codepoints-to-string(1114109), concat('\\p{IsNoBlock}', substring(name(/*), 99)))",
                 "matches(codepoints-to-string((201552, 917505)), concat('\\p{IsNoBlock}', substring(name(/*), 99)))",
                 "matches(codepoints-to-string(1114109), concat('^\\P{IsNoBlock}$', substring(name(/*), 99)))",
                 "string-length(replace(codepoints-to-string((97, 65533, 1048576)), concat('\\P{IsNoBlock}', substring(name(/*), 99)), ''))"],
    'serial': ["serialize((//a)[1])", "parse-xml('<z><y>1</y></z>')//y/string()", "serialize(map{'a': 1}, map{'method': 'json'})",
               "json-to-xml('{\"a\": [1, 2]}')//*:number/string()", "xml-to-json(json-to-xml('[1, true, null]'))",
               "serialize(parse-xml('<p:z xmlns:p=\"urn:q\"/>'))"],
    'format': ["format-number(1234.5, '#,##0.00')", "format-integer(12, 'w')", "format-date(xs:date('2020-02-29'), '[D1o] [MNn] [Y]')",
               "format-dateTime(current-dateTime(), '[H01]:[m01]')", "1 div 3", "sum((0.1, 0.2, 0.3))", "round-half-to-even(2.5)"],
    'decimal': ["format-number(123456789012345678901234567890.125, '#.00')", "1 div 3.0", "avg((0.1, 0.2, 0.3333333333333333333333333333))",
                "round-half-to-even(12345678901234567890.12345678901234567890, 15)", "xs:decimal('123456789012345678901234567890.123456789') * 3",
                "format-number(1 div 3, '0.0000000000000000000000000000000')", "sum((0.1, 0.2, 0.3))"],
    'types': ["xs:NCName('a')", "xs:language('en-US')", "xs:date('2000-01-01') + xs:dayTimeDuration('P1D')", "1 instance of xs:integer",
              "(1, 'a') instance of xs:anyAtomicType+", "xs:QName('xs:a')", "'12' cast as xs:unsignedByte", "xs:gYearMonth('2000-02')"],
}


def gen_eval(rng, installed, family=None):
    if family is not None:
        return {'expr': rng.choice(FAMILIES[family]), 'v': '3.1', 'doc': rng.randrange(len(DOCS)), 'lazy': rng.random() < 0.2,
                'tz': None}
    x = rng.random()
    if x < 0.3:
        e = rng.choice(EXTRA)
        v = '3.1'
    elif x < 0.45 and installed:
        loc = rng.choice(installed + ['C', 'C.UTF-8', 'http://www.w3.org/2013/collation/UCA?lang=%s' % installed[0].split('.')[0]])
        e = rng.choice(COLLATION_EXPRS) % loc
        v = '3.1'
    elif x < 0.5:
        e = rng.choice(COLLATION_EXPRS) % rng.choice(['C', 'POSIX', 'xx_XX.UTF-8'])
        v = '3.1'
    elif x < 0.65:
        e = rng.choice(X.PATHS + X.SCALARS)
        v = rng.choice(['2.0', '3.1'])
    elif x < 0.85:
        e = rng.choice(X.XP2 + X.XP3)
        v = '3.1'
    else:
        e = rng.choice([t for t in X.VAR_EXPRS if '$node' not in t])
        v = '3.1'
    return {'expr': e, 'v': v, 'doc': rng.randrange(len(DOCS)), 'lazy': rng.random() < 0.2,
            'tz': rng.choice([None, None, '+02:00'])}


def gen_case(rng, tier):
    thorough = tier == 'thorough'
    nthreads = rng.choice([2, 2, 3, 3, 4] if thorough else [2, 2, 3])
    installed = sorted(rng.sample(ALL_LOCALES, rng.choice([0, 1, 2, 3])))
    threads = []
    # some runs make every thread work on the same family of functions (same lazily built state, same globals)
    family = rng.choice(sorted(FAMILIES) + ['collation', 'collation', 'regexdyn']) if rng.random() < 0.4 else None
    for _ in range(nthreads):
        prog = []
        for _j in range(rng.choice([1, 1, 2, 3] if thorough else [1, 1, 2])):
            if family == 'collation':
                # every thread switches the process locale: contention on the collation lock
                loc = rng.choice((installed or ['C.UTF-8']) + ['C', 'C.UTF-8', 'POSIX'])
                if rng.random() < 0.3:
                    # an evaluation that relies on the default collation of its own (maybe just created) parser
                    prog.append({'expr': rng.choice(["default-collation()", "compare('a', 'B')", "max(('a', 'B', 'c'))",
                                                     "string-join(sort(('b', 'a', 'C', 'ä')), ',')"]),
                                 'v': '3.1', 'doc': 0, 'lazy': False, 'tz': None})
                    continue
                prog.append({'expr': rng.choice(COLLATION_EXPRS) % loc, 'v': '3.1', 'doc': 0, 'lazy': rng.random() < 0.3,
                             'tz': None})
            else:
                prog.append(gen_eval(rng, installed, family))
        threads.append(prog)
    strat = rng.choice([{'kind': 'uniform', 'p': rng.choice([0.001, 0.005, 0.02, 0.1])},
                        {'kind': 'uniform', 'p': rng.choice([0.001, 0.005, 0.02, 0.1])},
                        {'kind': 'pct', 'depth': rng.choice([1, 2, 3]), 'estimated_steps': rng.choice([1500, 4000, 10000])},
                        {'kind': 'seam'}])
    strat['seed'] = rng.randrange(1 << 30)
    return {'config': {'installed': installed, 'strategy': strat, 'shared_doc': rng.random() < 0.3,
                       'warm': rng.random() < 0.3, 'build_in_thread': rng.random() < (0.7 if family == 'collation' else 0.3), 'vars': {k: v[0] for k, v in X.VARIABLE_SPECS.items()}},
            'threads': threads}


def parser_class(v):
    import elementpath
    from elementpath.xpath31 import XPath31Parser
    return {'2.0': elementpath.XPath2Parser, '3.1': XPath31Parser}[v]


def build_kwargs(ev, cfg):
    kw = {'current_dt': datetime.datetime.fromisoformat(NOW),
          'variables': {k: X.make_value(s) for k, s in cfg['vars'].items()}}
    if ev.get('tz'):
        kw['timezone'] = ev['tz']
    return kw


def do_eval(selector, root, ev, cfg):
    kw = build_kwargs(ev, cfg)
    try:
        if ev.get('lazy'):
            res = list(selector.iter_select(root, **kw))
        else:
            res = selector.select(root, **kw)
            res = res if isinstance(res, list) else [res]
        out = []
        for x in res:
            if hasattr(x, 'tag') and hasattr(x, 'attrib'):
                out.append(['elem', str(x.tag), (x.text or '')[:20], sorted([str(k), str(v)] for k, v in x.attrib.items())])
            elif hasattr(x, 'getroot'):
                out.append(['doc'])
            else:
                out.append(canon(x))
        return ['ok', out]
    except (SimDeadlock, SimHang):
        raise
    except BaseException as e:
        return canon_exc(e)


def sequential(case, order):
    """Evaluate whole evaluations one after the other in the given order (list of [thread, index])."""
    import elementpath
    import xml.etree.ElementTree as ET
    cfg = case['config']
    out = {}
    roots = {}
    for t, i in order:
        ev = case['threads'][t][i]
        try:
            sel = elementpath.Selector(ev['expr'], parser=parser_class(ev['v']))
        except Exception as e:
            out['%d.%d' % (t, i)] = ['construction-failed', canon_exc(e)]
            continue
        key = (t if not cfg.get('shared_doc') else 0, ev['doc'])
        if key not in roots:
            roots[key] = ET.fromstring(DOCS[ev['doc']])
        out['%d.%d' % (t, i)] = do_eval(sel, roots[key], ev, cfg)
    return out


def run_case(case, world):
    import elementpath
    import xml.etree.ElementTree as ET
    cfg = case['config']
    loc = world.locale
    loc.reset(installed=cfg['installed'])
    violations = []
    stats = {'threads': len(case['threads']), 'evaluations': 0, 'context_switches': 0, 'scheduling_points': 0,
             'serialisability_searches': 0, 'sequential_orders_tried': 0}

    def violate(cls, signature, detail, features=()):
        violations.append({'cls': cls, 'signature': signature, 'detail': detail, 'features': sorted(set(features))})

    # ---- a keeper process forked from the pristine state answers "what does this sequential order give?"
    req_r, req_w = os.pipe()
    rep_r, rep_w = os.pipe()
    keeper = os.fork()
    if keeper == 0:
        try:
            os.close(req_w)
            os.close(rep_r)
            with os.fdopen(req_r, 'r') as rq, os.fdopen(rep_w, 'w') as rp:
                for line in rq:
                    order = json.loads(line)
                    st, val = runner.fork_call(lambda: sequential(case, order), timeout=60)
                    rp.write(json.dumps(val if st == 'ok' else {'failed': st}, default=str) + '\n')
                    rp.flush()
        finally:
            os._exit(0)
    os.close(req_r)
    os.close(rep_w)
    rq = os.fdopen(req_w, 'w')
    rp = os.fdopen(rep_r, 'r')

    def ask(order):
        rq.write(json.dumps(order) + '\n')
        rq.flush()
        return json.loads(rp.readline())

    try:
        if cfg.get('warm'):
            elementpath.select(ET.fromstring(DOCS[0]), "count(//*) + string-length(string(current-date()))")
        # isolated references: each evaluation alone in a pristine process
        iso = {}
        for t, prog in enumerate(case['threads']):
            for i, ev in enumerate(prog):
                iso['%d.%d' % (t, i)] = ask([[t, i]])['%d.%d' % (t, i)]
        # ---- Selectors and documents are built before the threads start
        selectors = {}
        roots = {}
        for t, prog in enumerate(case['threads']):
            for i, ev in enumerate(prog):
                try:
                    selectors[(t, i)] = elementpath.Selector(ev['expr'], parser=parser_class(ev['v']))
                except Exception as e:
                    selectors[(t, i)] = ['construction-failed', canon_exc(e)]
                key = (t if not cfg.get('shared_doc') else 0, ev['doc'])
                if key not in roots:
                    roots[key] = ET.fromstring(DOCS[ev['doc']])
        env0 = dict(os.environ)
        results = {}
        dec_ok = {}
        # building the table behind \w takes about two million line events, and every thread may build it
        sched = BatonScheduler(world, cfg['strategy'], decisions=case.get('decisions'), step_cap=40_000_000)
        loc.log = lambda ev_: (world.event(ev_), world.point('setlocale'))

        def body(t):
            def fn():
                c0 = decimal.getcontext()
                snap = (c0.prec, c0.rounding, c0.Emin, c0.Emax)
                for i, ev in enumerate(case['threads'][t]):
                    key = (t if not cfg.get('shared_doc') else 0, ev['doc'])
                    sel_ = selectors[(t, i)]
                    if cfg.get('build_in_thread'):
                        # the Selector (and its parser) is created by the thread, while the others evaluate
                        try:
                            sel_ = elementpath.Selector(ev['expr'], parser=parser_class(ev['v']))
                        except Exception as e:
                            sel_ = ['construction-failed', canon_exc(e)]
                    if isinstance(sel_, list):
                        results['%d.%d' % (t, i)] = sel_
                        continue
                    results['%d.%d' % (t, i)] = do_eval(sel_, roots[key], ev, cfg)
                c1 = decimal.getcontext()
                dec_ok[t] = snap == (c1.prec, c1.rounding, c1.Emin, c1.Emax)
            return fn

        world.tracing_lines = True
        world.start_monitoring()
        try:
            sched.run({t: body(t) for t in range(len(case['threads']))})
        finally:
            world.tracing_lines = False
            world.stop_monitoring()
            loc.log = None
        stats['context_switches'] = sched.switches
        stats['scheduling_points'] = sched.seq
        stats['evaluations'] = len(results)
        world.event(('results', sorted(results.items())))
        feats = ['strategy:' + cfg['strategy']['kind'], 'threads:%d' % len(case['threads'])]
        if sched.verdict is not None:
            cls = 'DEADLOCK' if sched.verdict[0] == 'SimDeadlock' else 'HANG'
            violate(cls, '%s:threads' % cls.lower(), 'concurrent evaluation never finishes: %s' % sched.verdict[1], feats)
        else:
            for t, e in sched.errors.items():
                violate('THREAD_CRASH', 'thread-raised:%s' % type(e).__name__, 'thread %d raised %r outside an evaluation' % (t, e), feats)
            diff = [k for k in sorted(iso) if results.get(k) != iso[k]]
            if diff:
                stats['serialisability_searches'] += 1
                world.probe('result-differs-from-isolated')
                explained = False
                progs = [list(range(len(p))) for p in case['threads']]
                slots = [t for t, p in enumerate(progs) for _ in p]
                tried = 0
                for perm in sorted(set(itertools.permutations(slots))):
                    if tried >= 120:
                        break
                    idx = [0] * len(progs)
                    order = []
                    for t in perm:
                        order.append([t, idx[t]])
                        idx[t] += 1
                    tried += 1
                    got = ask(order)
                    if all(got.get(k) == results.get(k) for k in iso):
                        explained = True
                        world.probe('explained-by-sequential-order')
                        break
                stats['sequential_orders_tried'] += tried
                if not explained:
                    k = diff[0]
                    t, i = map(int, k.split('.'))
                    ev = case['threads'][t][i]
                    violate('NOT_SERIALISABLE', 'not-serialisable:%s' % ev['expr'].split('(')[0][:30],
                            'thread %d evaluation %d (%s) gave %r concurrently, %r alone, and none of %d sequential orders '
                            'of the whole evaluations explains the result vector' % (t, i, ev['expr'], results.get(k), iso[k], tried),
                            feats + ['expr:' + ev['expr'].split('(')[0][:30]])
            if world.locks_held():
                violate('LOCK_LEAK', 'lock-held-after-threads', 'locks %r still held after all threads finished' % world.locks_held(), feats)
            if loc.identity() != loc.initial_identity:
                violate('LOCALE_LEAK', 'locale-changed-after-threads', 'LC_COLLATE is %r after all threads finished' % loc.current, feats)
            for t, ok in dec_ok.items():
                if not ok:
                    violate('DECIMAL_CTX', 'decimal-context-changed:thread', 'thread %d ends with another decimal context' % t, feats)
            if dict(os.environ) != env0:
                violate('ENVIRON', 'environ-changed:threads', 'os.environ changed', feats)
        inter = hashlib.sha256(repr(sched.seam_trace).encode()).hexdigest()[:16]
        decisions = sched.decisions
    finally:
        try:
            rq.close()
            rp.close()
        except Exception:
            pass
        os.waitpid(keeper, 0)
    nontrivial = []
    if stats['context_switches'] >= 1:
        nontrivial = [hashlib.sha256(repr((case['threads'], decisions[:50])).encode()).hexdigest()[:16]]
    out = {'violations': violations, 'stats': stats, 'nontrivial': nontrivial, 'interleaving': inter}
    if violations and case.get('decisions') is None:
        out['decisions'] = decisions
    return out


def simplify(case):
    cfg = case['config']
    for i in range(len(cfg['installed'])):
        yield dict(case, config=dict(cfg, installed=cfg['installed'][:i] + cfg['installed'][i + 1:]))
    for t, prog in enumerate(case['threads']):
        if len(prog) > 1:
            for i in range(len(prog)):
                th = list(case['threads'])
                th[t] = prog[:i] + prog[i + 1:]
                yield dict(case, threads=th)
    if cfg.get('shared_doc') or cfg.get('warm'):
        yield dict(case, config=dict(cfg, shared_doc=False, warm=False))
