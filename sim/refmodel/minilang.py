"""
Mini-language: integers, booleans, flat sequences, let/for/some/every, inline functions,
partial application, named function references, higher-order functions, arrays/maps of
functions. A reference interpreter (Python closures over immutable environments), a renderer
to XPath 3.1 text, and a typed random generator.

AST nodes are JSON lists: [tag, ...].  Values are flat tuples of items; an item is an int, a
bool, a Fn, an Arr or a Map1.
"""


class ModelError(Exception):
    def __init__(self, code, msg=''):
        Exception.__init__(self, '%s %s' % (code, msg))
        self.code = code


class Fn:
    __slots__ = ('arity', 'impl', 'name', 'params')

    def __init__(self, arity, impl, name='fn', params=None):
        self.arity = arity
        self.impl = impl
        self.name = name
        self.params = params

    def call(self, args):
        if len(args) != self.arity:
            raise ModelError('XPTY0004', 'arity')
        return self.impl(args)


class Arr:
    __slots__ = ('members',)

    def __init__(self, members):
        self.members = tuple(members)


class Map1:
    __slots__ = ('entries',)

    def __init__(self, entries):
        self.entries = dict(entries)


def one_int(v):
    if len(v) != 1 or isinstance(v[0], bool) or not isinstance(v[0], int):
        raise ModelError('XPTY0004', 'single integer expected')
    return v[0]


def one_fn(v):
    if len(v) != 1 or not isinstance(v[0], (Fn, Arr, Map1)):
        raise ModelError('XPTY0004', 'single function expected')
    return v[0]


def ebv(v):
    if len(v) == 1 and isinstance(v[0], bool):
        return v[0]
    if len(v) == 0:
        return False
    raise ModelError('FORG0006', 'ebv')


def call_item(f, args):
    if isinstance(f, Fn):
        return f.call(args)
    if isinstance(f, Arr):
        if len(args) != 1:
            raise ModelError('XPTY0004')
        k = one_int(args[0])
        if k < 1 or k > len(f.members):
            raise ModelError('FOAY0001')
        return f.members[k - 1]
    if isinstance(f, Map1):
        if len(args) != 1 or len(args[0]) != 1:
            raise ModelError('XPTY0004')
        return f.entries.get(args[0][0], ())
    raise ModelError('XPTY0004')


def _builtin(name, arity):
    def impl(args):
        if name == 'abs':
            return (abs(one_int(args[0])),) if args[0] else ()
        if name == 'count':
            return (len(args[0]),)
        if name == 'sum':
            return (sum(_ints(args[0])),)
        if name == 'reverse':
            return tuple(reversed(args[0]))
        if name == 'remove':
            p = one_int(args[1])
            return tuple(x for i, x in enumerate(args[0], 1) if i != p)
        if name == 'index-of':
            t = one_int(args[1])
            return tuple(i for i, x in enumerate(_ints(args[0]), 1) if x == t)
        if name == 'insert-before':
            p = max(1, one_int(args[1]))
            s = args[0]
            if p > len(s):
                return s + args[2]
            return s[:p - 1] + args[2] + s[p - 1:]
        if name == 'head':
            return args[0][:1]
        if name == 'exists':
            return (len(args[0]) > 0,)
        if name == 'empty':
            return (len(args[0]) == 0,)
        if name == 'tail':
            return args[0][1:]
        if name == 'boolean':
            v = args[0]
            if not v:
                return (False,)
            if len(v) == 1 and isinstance(v[0], bool):
                return (v[0],)
            if len(v) == 1 and isinstance(v[0], int):
                return (v[0] != 0,)
            raise ModelError('FORG0006', 'ebv')
        raise ModelError('XPST0017', name)
    return Fn(arity, impl, name)


def _ints(v):
    for x in v:
        if isinstance(x, bool) or not isinstance(x, int):
            raise ModelError('XPTY0004', 'integers expected')
    return v


BUILTINS = {'abs': 1, 'count': 1, 'sum': 1, 'reverse': 1, 'remove': 2, 'index-of': 2, 'insert-before': 3,
            'head': 1, 'tail': 1, 'exists': 1, 'empty': 1, 'boolean': 1}


HOFS = {'for-each': 2, 'filter': 2, 'fold-left': 3, 'fold-right': 3, 'for-each-pair': 3, 'sort': 3}


def free_vars(ast, bound=frozenset()):
    """Names read but not bound (static XPST0008 check)."""
    tag = ast[0]
    out = set()
    if tag == 'var':
        if ast[1] not in bound:
            out.add(ast[1])
    elif tag in ('let', 'for', 'some', 'every'):
        out |= free_vars(ast[2], bound)
        out |= free_vars(ast[3], bound | {ast[1]})
    elif tag == 'fn':
        out |= free_vars(ast[2], bound | set(ast[1]))
    else:
        for ch in ast[1:]:
            if isinstance(ch, list) and ch and isinstance(ch[0], str):
                out |= free_vars(ch, bound)
            elif isinstance(ch, list):
                for c2 in ch:
                    if isinstance(c2, list) and c2 and isinstance(c2[0], str):
                        out |= free_vars(c2, bound)
    return out


class Interp:
    def __init__(self, fuel=20000, fn_envs=None):
        self.fuel = fuel
        self.calls = 0
        self.flags = set()
        self.fn_envs = fn_envs if fn_envs is not None else {}   # fn node id -> snapshot of captured values
        self.dyn = []                                           # names bound up the dynamic call chain

    def note_call(self, f, env):
        """Risk flags: conditions that are necessary for the known function-item defects to show."""
        params = getattr(f, 'params', None)
        if params:
            names = set(k for k in env if k != '.')
            for s_ in self.dyn:
                names |= s_
            if names & set(params):
                self.flags.add('param-shadow')

    def call(self, f, args, env):
        self.note_call(f, env)
        self.dyn.append(set(k for k in env if k != '.'))
        try:
            self.calls += 1
            return call_item(f, args)
        finally:
            self.dyn.pop()

    def tick(self):
        self.fuel -= 1
        if self.fuel < 0:
            raise ModelError('FUEL')

    def ev(self, a, env):
        self.tick()
        t = a[0]
        if t == 'int':
            return (a[1],)
        if t == 'bool':
            return (bool(a[1]),)
        if t == 'str':
            return (a[1],)
        if t == 'var':
            if a[1] not in env:
                raise ModelError('XPST0008', a[1])
            return env[a[1]]
        if t == 'dot':
            if '.' not in env:
                raise ModelError('XPDY0002')
            return env['.']
        if t == 'seq':
            out = ()
            for e in a[1:]:
                out += self.ev(e, env)
            return out
        if t in ('add', 'sub', 'mul'):
            x = self.ev(a[1], env)
            y = self.ev(a[2], env)
            if not x or not y:
                return ()
            x, y = one_int(x), one_int(y)
            return (x + y,) if t == 'add' else (x - y,) if t == 'sub' else (x * y,)
        if t in ('eq', 'lt'):
            x = self.ev(a[1], env)
            y = self.ev(a[2], env)
            for p in x:
                for q in y:
                    if isinstance(p, (Fn, Arr, Map1)) or isinstance(q, (Fn, Arr, Map1)):
                        raise ModelError('FOTY0013')
                    if isinstance(p, bool) != isinstance(q, bool):
                        raise ModelError('XPTY0004')
                    if (p == q) if t == 'eq' else (p < q):
                        return (True,)
            return (False,)
        if t == 'not':
            return (not ebv(self.ev(a[1], env)),)
        if t == 'and':
            return (ebv(self.ev(a[1], env)) and ebv(self.ev(a[2], env)),)
        if t == 'if':
            return self.ev(a[2], env) if ebv(self.ev(a[1], env)) else self.ev(a[3], env)
        if t == 'let':
            v = self.ev(a[2], env)
            e2 = dict(env)
            e2[a[1]] = v
            return self.ev(a[3], e2)
        if t == 'for':
            out = ()
            for item in self.ev(a[2], env):
                e2 = dict(env)
                e2[a[1]] = (item,)
                out += self.ev(a[3], e2)
            return out
        if t in ('some', 'every'):
            res = t == 'every'
            for item in self.ev(a[2], env):
                e2 = dict(env)
                e2[a[1]] = (item,)
                b = ebv(self.ev(a[3], e2))
                if t == 'some' and b:
                    return (True,)
                if t == 'every' and not b:
                    return (False,)
            return (res,)
        if t == 'fn':
            params, body = a[1], a[2]
            closure = dict(env)
            closure.pop('.', None)      # the focus is absent inside a function body
            interp = self

            def impl(args, params=params, body=body, closure=closure):
                e2 = dict(closure)
                for p, v in zip(params, args):
                    e2[p] = v
                return interp.ev(body, e2)
            fv = sorted(free_vars(a) - {'.'})
            snap = repr([(n, value_to_canon(env[n])) for n in fv if n in env])
            old = self.fn_envs.get(id(a))
            if old is not None and old != snap:
                self.flags.add('multi-env')
            self.fn_envs[id(a)] = snap
            return (Fn(len(params), impl, 'inline', tuple(params)),)
        if t == 'named':
            if a[1] not in BUILTINS or BUILTINS[a[1]] != a[2]:
                raise ModelError('XPST0017')
            return (_builtin(a[1], a[2]),)
        if t == 'hof':      # named reference to a higher-order function: ['hof', name]
            interp = self
            name = a[1]

            def himpl(args, name=name, env=dict(env)):
                if name == 'for-each':
                    f = one_fn(args[1])
                    out = ()
                    for item in args[0]:
                        out += interp.call(f, [(item,)], env)
                    return out
                if name == 'filter':
                    f = one_fn(args[1])
                    out = ()
                    for item in args[0]:
                        r_ = interp.call(f, [(item,)], env)
                        if len(r_) != 1 or not isinstance(r_[0], bool):
                            raise ModelError('XPTY0004')
                        if r_[0]:
                            out += (item,)
                    return out
                if name == 'fold-left':
                    f = one_fn(args[2])
                    acc = args[1]
                    for item in args[0]:
                        acc = interp.call(f, [acc, (item,)], env)
                    return acc
                if name == 'fold-right':
                    f = one_fn(args[2])
                    acc = args[1]
                    for item in reversed(args[0]):
                        acc = interp.call(f, [(item,), acc], env)
                    return acc
                if name == 'for-each-pair':
                    f = one_fn(args[2])
                    out = ()
                    for x, y in zip(args[0], args[1]):
                        out += interp.call(f, [(x,), (y,)], env)
                    return out
                if name == 'sort':          # sort#3, the collation argument is the empty sequence
                    f = one_fn(args[2])
                    items = list(args[0])
                    try:
                        keys = [tuple(_ints(interp.call(f, [(x,)], env))) for x in items]
                    except ModelError:
                        if len(items) >= 2:
                            raise
                        # no comparison is needed for fewer than two items, so an implementation may leave the key
                        # function uncalled (XPath 3.1, 2.3.4 errors and optimization): either outcome is right
                        interp.flags.add('unneeded-key-error')
                        return tuple(items)
                    order = sorted(range(len(items)), key=lambda i: keys[i])
                    return tuple(items[i] for i in order)
                raise ModelError('XPST0017', name)
            self.flags.add('hof-reference')
            return (Fn(HOFS[a[1]], himpl, 'hof-' + name),)
        if t in ('bi', 'bia'):       # direct call of a builtin ('bia': written with the arrow operator): ['bi', name, arg...]; an arg ['?'] makes a partial application
            f = _builtin(a[1], len(a) - 2)
            args = [None if x[0] == '?' else self.ev(x, env) for x in a[2:]]
            if any(x is None for x in args):
                holes = [i for i, x in enumerate(args) if x is None]
                self.flags.add('partial')
                self.flags.add('builtin-partial')

                def bimpl(rest, f=f, args=args, holes=holes):
                    full = list(args)
                    for i, v in zip(holes, rest):
                        full[i] = v
                    return f.call(full)
                return (Fn(len(holes), bimpl, 'builtin-partial'),)
            return f.call(args)
        if t == 'call':
            f = one_fn(self.ev(a[1], env))
            args = [None if x[0] == '?' else self.ev(x, env) for x in a[2]]
            if any(x is None for x in args):
                if not isinstance(f, Fn):
                    raise ModelError('XPTY0004')
                if len(args) != f.arity:
                    raise ModelError('XPTY0004', 'arity')
                holes = [i for i, x in enumerate(args) if x is None]

                def pimpl(rest, f=f, args=args, holes=holes):
                    full = list(args)
                    for i, v in zip(holes, rest):
                        full[i] = v
                    return f.call(full)
                self.flags.add('partial')
                if f.name in ('builtin-partial', 'partial-of-builtin-partial'):
                    self.flags.add('partial-of-builtin-partial')
                    return (Fn(len(holes), pimpl, 'partial-of-builtin-partial', f.params),)
                return (Fn(len(holes), pimpl, 'partial', f.params),)
            return self.call(f, args, env)
        if t == 'for-each':
            f = one_fn(self.ev(a[2], env))
            out = ()
            for item in self.ev(a[1], env):
                out += self.call(f, [(item,)], env)
            return out
        if t == 'filter':
            f = one_fn(self.ev(a[2], env))
            out = ()
            for item in self.ev(a[1], env):
                r = self.call(f, [(item,)], env)
                if len(r) != 1 or not isinstance(r[0], bool):
                    raise ModelError('XPTY0004')
                if r[0]:
                    out += (item,)
            return out
        if t == 'fold-left':
            f = one_fn(self.ev(a[3], env))
            acc = self.ev(a[2], env)
            for item in self.ev(a[1], env):
                acc = self.call(f, [acc, (item,)], env)
            return acc
        if t == 'fold-right':
            f = one_fn(self.ev(a[3], env))
            acc = self.ev(a[2], env)
            for item in reversed(self.ev(a[1], env)):
                acc = self.call(f, [(item,), acc], env)
            return acc
        if t == 'for-each-pair':
            f = one_fn(self.ev(a[3], env))
            out = ()
            first = self.ev(a[1], env)
            try:
                second = self.ev(a[2], env)
            except ModelError:
                if first:
                    raise
                # there is no pair whatever the second sequence is: an implementation may leave it unevaluated
                # (XPath 3.1, 2.3.4 errors and optimization), either outcome is right
                self.flags.add('unneeded-argument-error')
                return ()
            for x, y in zip(first, second):
                out += self.call(f, [(x,), (y,)], env)
            return out
        if t == 'sort':
            f = one_fn(self.ev(a[2], env))
            items = list(self.ev(a[1], env))
            try:
                keys = [tuple(_ints(self.call(f, [(x,)], env))) for x in items]
            except ModelError:
                if len(items) >= 2:
                    raise
                self.flags.add('unneeded-key-error')      # see the sort#3 reference above
                return tuple(items)
            order = sorted(range(len(items)), key=lambda i: keys[i])      # stable
            return tuple(items[i] for i in order)
        if t == 'apply':
            f = one_fn(self.ev(a[1], env))
            arr = one_fn(self.ev(a[2], env))
            if not isinstance(arr, Arr):
                raise ModelError('XPTY0004')
            return self.call(f, list(arr.members), env)
        if t == 'arr':
            return (Arr([self.ev(x, env) for x in a[1:]]),)
        if t == 'map1':
            return (Map1([(a[1], self.ev(a[2], env))]),)
        if t == 'bang':
            out = ()
            for item in self.ev(a[1], env):
                e2 = dict(env)
                e2['.'] = (item,)
                out += self.ev(a[2], e2)
            return out
        if t == 'pred':
            out = ()
            for item in self.ev(a[1], env):
                e2 = dict(env)
                e2['.'] = (item,)
                r = self.ev(a[2], e2)
                if len(r) != 1 or not isinstance(r[0], bool):
                    raise ModelError('XPTY0004', 'boolean predicate expected')
                if r[0]:
                    out += (item,)
            return out
        raise ModelError('BADAST', t)


# ---- rendering ------------------------------------------------------------------------------------

def render_arg(a):
    """An argument of a function call is an ExprSingle: for/let/some/every/if need no parentheses there
    (and a parenthesised expression is materialised, which hides lazily consumed binders)."""
    text = render(a)
    if a[0] in ('for', 'let', 'some', 'every', 'if') and text.startswith('(') and text.endswith(')'):
        return text[1:-1]
    return text


def render(a):
    t = a[0]
    r = render
    if t == 'int':
        return str(a[1]) if a[1] >= 0 else '(%d)' % a[1]
    if t == 'bool':
        return 'true()' if a[1] else 'false()'
    if t == 'str':
        return "'%s'" % a[1]
    if t == 'var':
        return '$' + a[1]
    if t == 'dot':
        return '.'
    if t == 'seq':
        return '(' + ', '.join(r(x) for x in a[1:]) + ')'
    if t in ('add', 'sub', 'mul', 'eq', 'lt', 'and'):
        op = {'add': '+', 'sub': '-', 'mul': '*', 'eq': '=', 'lt': '<', 'and': 'and'}[t]
        return '(%s %s %s)' % (r(a[1]), op, r(a[2]))
    if t == 'not':
        return 'not(%s)' % r(a[1])
    if t == 'if':
        return '(if (%s) then %s else %s)' % (r(a[1]), r(a[2]), r(a[3]))
    if t == 'let':
        return '(let $%s := %s return %s)' % (a[1], r(a[2]), r(a[3]))
    if t == 'for':
        return '(for $%s in %s return %s)' % (a[1], r(a[2]), r(a[3]))
    if t in ('some', 'every'):
        return '(%s $%s in %s satisfies %s)' % (t, a[1], r(a[2]), r(a[3]))
    if t == 'fn':
        return 'function(%s) { %s }' % (', '.join('$' + p for p in a[1]), r(a[2]))
    if t == 'named':
        return '%s#%d' % (a[1], a[2])
    if t == 'hof':
        return '%s#%d' % (a[1], HOFS[a[1]])
    if t == 'bi':
        return '%s(%s)' % (a[1], ', '.join('?' if x[0] == '?' else render_arg(x) for x in a[2:]))
    if t == 'bia':
        return '(%s => %s(%s))' % (r(a[2]), a[1], ', '.join('?' if x[0] == '?' else render_arg(x) for x in a[3:]))
    if t == 'call':
        f = r(a[1])
        if a[1][0] in ('fn', 'named', 'hof'):
            f = '(%s)' % f
        return '%s(%s)' % (f, ', '.join('?' if x[0] == '?' else r(x) for x in a[2]))
    if t in ('for-each', 'filter'):
        return '%s(%s, %s)' % (t, render_arg(a[1]), r(a[2]))
    if t in ('fold-left', 'fold-right', 'for-each-pair'):
        return '%s(%s, %s, %s)' % (t, r(a[1]), r(a[2]), r(a[3]))
    if t == 'sort':
        return 'sort(%s, (), %s)' % (r(a[1]), r(a[2]))
    if t == 'apply':
        return 'apply(%s, %s)' % (r(a[1]), r(a[2]))
    if t == 'arr':
        return '[' + ', '.join(r(x) for x in a[1:]) + ']'
    if t == 'map1':
        return "map{'%s': %s}" % (a[1], r(a[2]))
    if t == 'bang':
        return '(%s ! %s)' % (r(a[1]), r(a[2]))
    if t == 'pred':
        return '%s[%s]' % (r(a[1]), r(a[2]))
    raise ValueError(t)


# ---- typed generator --------------------------------------------------------------------------------

NAMES = ['x', 'y', 'v', 'f', 'g']


def ftype(ptypes, ret):
    return ('F', tuple(ptypes), ret)


class Gen:
    """Typed generator: every program is well-typed by construction, so the reference
    interpreter never raises on it (unbound reads are added deliberately by the caller)."""

    def __init__(self, rng, externals=None, profile='full'):
        self.rng = rng
        self.scope_only = profile == 'scope'
        self.fresh_names = False
        self.no_partial = False
        self.no_fn_loops = False
        self.counter = 0
        self.externals = externals or {}
        self.features = set()
        self.binders = 0

    def name(self, env, avoid=()):
        r = self.rng
        if self.fresh_names:
            self.counter += 1
            return 'n%d' % self.counter
        cands = [n for n in NAMES + ['a', 'b', 'c'] if n not in avoid]
        shadow = sorted(k for k in env if not k.startswith('e') and k not in avoid)
        if shadow and r.random() < 0.6:
            return r.choice(shadow)         # shadow on purpose
        if not cands:
            self.counter += 1
            return 'z%d' % self.counter
        return r.choice(cands)

    def vars_of(self, env, ty):
        return [k for k, t in sorted(env.items()) if t == ty]

    def gen(self, ty, env, d):
        if ty == 'I':
            return self.gen_I(env, d)
        if ty == 'S':
            return self.gen_S(env, d)
        if ty == 'B':
            return self.gen_B(env, d)
        if ty[0] == 'F':
            return self.gen_F(ty, env, d)
        if ty[0] == 'FS':
            return self.gen_FS(ty[1], env, d)
        raise ValueError(ty)

    def rand_ftype(self, ret=None):
        r = self.rng
        n = r.choice([0, 1, 1, 2])
        return ftype([r.choice(['I', 'I', 'S']) for _ in range(n)], ret or r.choice(['I', 'I', 'S']))

    def bind_again(self, expr, name, env, ty):
        """(binder ...) then read $name again: the outer binding must be untouched."""
        if env.get(name) == 'I' and ty == 'I':
            self.features.add('reread-after-binder')
            return ['add', expr, ['var', name]]
        if env.get(name) in ('I', 'S') and ty == 'S':
            self.features.add('reread-after-binder')
            return ['seq', expr, ['var', name]]
        return expr

    def gen_I(self, env, d):
        r = self.rng
        vs = self.vars_of(env, 'I')
        if d <= 0:
            if vs and r.random() < 0.6:
                return ['var', r.choice(vs)]
            return ['int', r.randint(-3, 9)]
        k = r.randrange(9 if self.scope_only else 15)
        if k in (13, 14) and not self.no_partial:
            # a partial application is applied partially again, and the first one is still used afterwards
            self.features.add('partial-reused')
            fname, qname = 'pp', 'qq'
            base = self.gen_inline(ftype(['I', 'I', 'I'], 'I'), env, d - 1)
            a, b, c2 = [self.gen_I(env, 0) for _ in range(3)]
            holes = r.choice([[['?'], ['?'], c2], [['?'], c2, ['?']], [c2, ['?'], ['?']]])
            second = r.choice([[a, ['?']], [['?'], a]])
            use_q = ['call', ['var', qname], [b]]
            use_p = ['call', ['var', fname], [self.gen_I(env, 0), self.gen_I(env, 0)]]
            body = ['let', qname, ['call', ['var', fname], second],
                    r.choice([['add', use_q, use_p], ['add', use_p, use_q], ['seq', use_q, use_p, use_q]])]
            if body[3][0] == 'seq':
                body[3] = ['bi', 'sum', body[3]]
            return ['let', fname, ['call', base, holes], body]
        if not self.scope_only and r.random() < 0.02:
            # a function item called with one argument too many or too few: a type error, never a value
            self.features.add('wrong-arity-call')
            ft = ftype(['I'] * r.choice([1, 1, 2]), 'I')
            n = len(ft[1]) + r.choice([-1, 1])
            return ['call', self.gen_inline(ft, env, d - 1), [self.gen_I(env, 0) for _ in range(n)]]
        if k == 0:
            return ['int', r.randint(-3, 9)]
        if k == 1 and vs:
            return ['var', r.choice(vs)]
        if k == 2:
            return [r.choice(['add', 'add', 'mul', 'sub']), self.gen_I(env, d - 1), self.gen_I(env, d - 1)]
        if k == 3:
            return ['bi', r.choice(['count', 'sum']), self.gen_S(env, d - 1)]
        if k == 4:
            return ['if', self.gen_B(env, d - 1), self.gen_I(env, d - 1), self.gen_I(env, d - 1)]
        if k in (5, 6):
            return self.gen_let('I', env, d)
        if k in (7, 8):
            ft = self.rand_ftype('I')
            return ['call', self.gen_F(ft, env, d - 1), [self.gen(p, env, d - 2) for p in ft[1]]]
        if k == 9:
            self.features.add('fold')
            return [r.choice(['fold-left', 'fold-right']), self.gen_S(env, d - 1), self.gen_I(env, d - 2),
                    self.gen_F(ftype(['I', 'I'], 'I'), env, d - 1)]
        if k == 10 and r.random() < 0.3:
            # arrays and maps are functions of arity one, also for fn:apply
            self.features.add('apply-on-array-or-map')
            if r.random() < 0.5:
                n_ = r.choice([1, 2, 3])
                return ['apply', ['arr'] + [self.gen_I(env, 0) for _ in range(n_)], ['arr', ['int', r.randint(1, n_)]]]
            return ['apply', ['map1', 'k', self.gen_I(env, 0)], ['arr', ['str', 'k']]]
        if k == 10:
            self.features.add('apply')
            ft = self.rand_ftype('I')
            return ['apply', self.gen_F(ft, env, d - 1), ['arr'] + [self.gen(p, env, d - 2) for p in ft[1]]]
        if k == 11:
            # function items stored in an array / map and called later
            self.features.add('fn-in-container')
            ft = ftype(['I'], 'I')
            if r.random() < 0.5:
                fs = [self.gen_F(ft, env, d - 1) for _ in range(r.choice([1, 2, 3]))]
                idx = r.randint(1, len(fs))
                return ['call', ['call', ['arr'] + fs, [['int', idx]]], [self.gen_I(env, d - 2)]]
            return ['call', ['call', ['map1', 'k', self.gen_F(ft, env, d - 1)], [['str', 'k']]],
                    [self.gen_I(env, d - 2)]]
        if k == 12:
            # self-application recursion bounded by a fuel argument
            self.features.add('recursion')
            n = r.randint(0, 4)
            fname = self.name(env)
            rec = ['call', ['var', 's'], [['var', 's'], ['sub', ['var', 'n'], ['int', 1]]]]
            step = r.choice([['add', ['var', 'n'], rec], ['add', rec, ['var', 'n']], ['mul', rec, ['add', ['var', 'n'], ['int', 1]]],
                             ['add', ['mul', rec, ['int', 2]], ['var', 'n']]])
            body = ['if', ['eq', ['var', 'n'], ['int', 0]], self.gen_I({}, 0), step]
            prog = ['let', fname, ['fn', ['s', 'n'], body], ['call', ['var', fname], [['var', fname], ['int', n]]]]
            if r.random() < 0.5:
                # the function is created with another variable in scope (a non empty closure)
                cname = 'cc'
                body[3] = ['add', body[3], ['var', cname]] if r.random() < 0.5 else body[3]
                prog = ['let', cname, ['int', r.randint(0, 3)], prog]
            return prog
        return ['int', r.randint(-3, 9)]

    def gen_let(self, ty, env, d):
        r = self.rng
        self.binders += 1
        name = self.name(env)
        vt = r.choice(['I', 'I', 'S', self.rand_ftype()] + ([] if self.scope_only else [('FS', ftype([], 'I'))]))
        e2 = dict(env)
        e2[name] = vt
        expr = ['let', name, self.gen(vt, env, d - 1), self.gen(ty, e2, d - 1)]
        return self.bind_again(expr, name, env, ty)

    def gen_S(self, env, d):
        r = self.rng
        vs = self.vars_of(env, 'S')
        if d <= 0:
            if vs and r.random() < 0.5:
                return ['var', r.choice(vs)]
            return ['seq'] + [['int', r.randint(0, 5)] for _ in range(r.choice([0, 1, 2, 3, 3]))]
        k = r.randrange(24)
        if self.scope_only and k in (5, 6, 7, 8, 9, 10, 18, 19, 20, 21):
            k = r.choice([2, 3, 4, 11, 12, 13, 14, 16, 17, 22, 23])
        if k in (18, 20, 22, 23) and self.no_partial:
            k = 2
        if k in (22, 23):
            # the fixed arguments of a partial application of a built-in function belong to the scope (variables
            # or focus) of the partial application, not to the place of the call
            self.features.add('builtin-partial-fixed-argument-scope')
            s1, s2 = self.gen_S(env, 0), self.gen_S(env, 0)
            if s1 == ['seq']:
                s1 = ['seq', ['int', 1], ['int', 2], ['int', 3]]
            b = r.choice(['index-of', 'remove'])
            if k == 22:
                vname = 'vv'
                inner = ['let', vname, self.gen_I(env, 0), ['bi', b, ['?'], ['var', vname]]]
                return ['let', vname, ['int', r.randint(1, 3)],
                        ['let', 'ff', inner, ['seq', ['call', ['var', 'ff'], [s1]], ['var', vname]]]]
            fs = ['bang', ['seq', ['int', 1], ['int', 2], ['int', 3]], ['bi', b, ['?'], ['dot']]]
            if r.random() < 0.5:
                return ['for', 'ff', fs, ['call', ['var', 'ff'], [s1]]]
            return ['bang', ['let', 'ff', fs, ['seq', ['int', 7], ['int', 8]]], ['seq', ['dot']]] if False else \
                ['let', 'fs', fs, ['for', 'ff', ['var', 'fs'], ['call', ['var', 'ff'], [s1]]]]
        if k == 19:
            # a named reference to a higher-order function is bound first, the function item it is called with
            # closes over a variable bound later (and the reference is used more than once)
            self.features.add('hof-reference-late-closure')
            h = r.choice(sorted(HOFS))
            kname, hname = 'kk', 'hh'
            e2 = dict(env)
            e2[kname] = 'I'
            s1, s2 = self.gen_S(env, 0), self.gen_S(env, 0)
            if s1 == ['seq']:
                s1 = ['seq', ['int', 3], ['int', 1], ['int', 2]]

            def fun(op):
                if h == 'filter':
                    return ['fn', ['p'], ['lt', ['var', 'p'], ['var', kname]]]
                if h in ('for-each', 'sort'):
                    return ['fn', ['p'], [op, ['var', 'p'], ['var', kname]]]
                if h == 'for-each-pair':
                    return ['fn', ['p', 'q'], [op, ['add', ['var', 'p'], ['var', 'q']], ['var', kname]]]
                if r.random() < 0.5:     # folds with a sequence accumulator
                    acc, item = ('p', 'q') if h == 'fold-left' else ('q', 'p')
                    return ['fn', ['p', 'q'], ['seq', ['var', acc], [op, ['var', item], ['var', kname]]]]
                return ['fn', ['p', 'q'], [op, ['add', ['var', 'p'], ['var', 'q']], ['var', kname]]]

            def use(seq, op):
                if h in ('for-each', 'filter'):
                    return ['call', ['var', hname], [seq, fun(op)]]
                if h == 'sort':
                    return ['call', ['var', hname], [seq, ['seq'], fun(op)]]
                if h == 'for-each-pair':
                    return ['call', ['var', hname], [seq, ['bi', 'reverse', seq], fun(op)]]
                zero = r.choice([['int', 0], ['seq'], ['seq', ['int', 7], ['int', 8]]])
                f = fun(op)
                if f[2][0] != 'seq':
                    zero = ['int', r.randint(0, 3)]
                return ['call', ['var', hname], [seq, zero, f]]
            uses = [use(s1, 'mul')] + ([use(s2, 'add')] if r.random() < 0.6 else [])
            return ['let', hname, ['hof', h], ['let', kname, self.gen_I(env, 0), ['seq'] + uses]]
        if k == 20:
            # partial applications of built-in functions over sequences, filled with empty, single and longer sequences
            self.features.add('builtin-seq-partial')
            b = r.choice(['exists', 'empty', 'count', 'head', 'tail', 'reverse', 'sum', 'boolean'])
            fills = [self.gen_S(env, 0), ['seq'], ['seq', ['int', r.randint(0, 5)]], self.gen_S(env, 0)]
            if b == 'boolean':      # the effective boolean value is defined for at most one integer
                fills = [['seq'], ['int', 0], self.gen_I(env, 0), ['seq', ['int', r.randint(0, 2)]]]
            r.shuffle(fills)
            calls = [['call', ['var', 'pp'], [x]] for x in fills[:r.choice([2, 3, 4])]]
            if b in ('exists', 'empty', 'boolean'):
                calls = [['if', c, ['int', 1], ['int', 0]] for c in calls]
            return ['let', 'pp', ['bi', b, ['?']], ['seq'] + calls]
        if k == 21:
            # folds whose zero value and accumulator are sequences (also empty)
            self.features.add('fold-sequence-accumulator')
            h = r.choice(['fold-left', 'fold-right'])
            acc, item = ('p', 'q') if h == 'fold-left' else ('q', 'p')
            zero = r.choice([['seq'], ['seq'], ['seq', ['int', 7], ['int', 8]], ['int', 1], self.gen_S(env, 0)])
            body = r.choice([['seq', ['var', acc], ['var', item]], ['seq', ['var', item], ['var', acc]],
                             ['seq', ['var', acc], ['mul', ['var', item], ['int', 2]], ['var', item]],
                             ['var', acc], ['bi', 'reverse', ['seq', ['var', acc], ['var', item]]]])
            seq = r.choice([['seq'], self.gen_S(env, d - 1), self.gen_S(env, 0)])
            return [h, seq, zero, ['fn', ['p', 'q'], body]]
        if k == 18:
            # a partial application of a built-in function applied partially again, the first one used afterwards
            self.features.add('builtin-partial-reused')
            s1, s2, s3 = [self.gen_S(env, 0) for _ in range(3)]
            i1, i2 = self.gen_I(env, 0), self.gen_I(env, 0)
            which = r.randrange(3)
            if which == 0:
                first = ['bi', 'insert-before', ['?'], ['?'], ['?']]
                second = ['call', ['var', 'pp'], [['?'], i1, ['?']]]
                use_q = ['call', ['var', 'qq'], [s1, s2]]
                use_p = ['call', ['var', 'pp'], [s3, i2, s1]]
            elif which == 1:
                first = ['bi', 'remove', ['?'], ['?']]
                second = ['call', ['var', 'pp'], [s1, ['?']]]
                use_q = ['call', ['var', 'qq'], [i1]]
                use_p = ['call', ['var', 'pp'], [s2, i2]]
            else:
                first = ['bi', 'index-of', ['?'], ['?']]
                second = ['call', ['var', 'pp'], [['?'], i1]]
                use_q = ['call', ['var', 'qq'], [s1]]
                use_p = ['call', ['var', 'pp'], [s2, i2]]
            order = r.choice([[use_q, use_p], [use_p, use_q], [use_q, use_p, use_q]])
            return ['let', 'pp', first, ['let', 'qq', second, ['seq'] + order]]
        if k in (16, 17):
            # a binder whose result is only partly consumed (exists/empty/head/some), then the same name is read again
            outer = [n for n, t in sorted(env.items()) if t == 'I' and not n.startswith('e')]
            if outer:
                self.features.add('abandoned-binder-then-reread')
                self.binders += 1
                name = r.choice(outer)
                loop = ['for', name, self.gen_S({k_: v_ for k_, v_ in env.items() if k_ != name}, d - 1),
                        r.choice([['var', name], ['mul', ['var', name], ['int', 2]]])]
                if name in names_in(loop[2]):
                    loop[2] = ['seq', ['int', 4], ['int', 5], ['int', 6]]
                qn = [n for n in ('q', 'w', 'u', 'qq1') if n not in names_in(loop) and n not in env][0]
                probe = r.choice([['bi', 'exists', loop], ['bi', 'empty', loop], ['eq', ['bi', 'head', loop], ['int', 4]],
                                  ['some', qn, loop, ['lt', ['int', 0], ['var', qn]]]])
                return ['seq', ['if', probe, ['int', 1], ['int', 0]], ['var', name]]
            k = 3
        if k == 0:
            return ['seq'] + [['int', r.randint(0, 5)] for _ in range(r.choice([0, 1, 2, 3, 4]))]
        if k == 1 and vs:
            return ['var', r.choice(vs)]
        if k == 2:
            return ['seq', self.gen(r.choice(['I', 'S']), env, d - 1), self.gen(r.choice(['I', 'S']), env, d - 1)]
        if k in (3, 4):
            self.binders += 1
            rng_expr = self.gen_S(env, d - 1)
            name = self.name(env, names_in(rng_expr))
            e2 = dict(env)
            e2[name] = 'I'
            expr = ['for', name, rng_expr, self.gen(r.choice(['I', 'S']), e2, d - 1)]
            return self.bind_again(expr, name, env, 'S')
        if k == 5:
            self.features.add('for-each')
            return ['for-each', self.gen_S(env, d - 1), self.gen_F(ftype(['I'], r.choice(['I', 'S'])), env, d - 1)]
        if k == 6:
            self.features.add('filter')
            return ['filter', self.gen_S(env, d - 1), self.gen_F(ftype(['I'], 'B'), env, d - 1)]
        if k == 7:
            self.features.add('for-each-pair')
            return ['for-each-pair', self.gen_S(env, d - 1), self.gen_S(env, d - 1),
                    self.gen_F(ftype(['I', 'I'], 'I'), env, d - 1)]
        if k == 8:
            self.features.add('sort')
            return ['sort', self.gen_S(env, d - 1), self.gen_F(ftype(['I'], 'I'), env, d - 1)]
        if k in (9, 10):
            # a sequence of function items, each called later
            self.features.add('fn-sequence')
            ft = ftype([r.choice(['I'])] * r.choice([0, 0, 1]), r.choice(['I', 'S']))
            fs = self.gen_FS(ft, env, d - 1)
            args = [self.gen(p, env, d - 2) for p in ft[1]]
            if r.random() < 0.5:
                return ['bang', fs, ['call', ['dot'], args]]
            name = self.name(env, names_in(fs))
            e2 = dict(env)
            e2[name] = ft
            args = [self.gen(p, e2, d - 2) for p in ft[1]]
            return ['for', name, fs, ['call', ['var', name], args]]
        if k == 11:
            return ['bang', self.gen_S(env, d - 1), self.gen_dot_I(env, d - 1)]
        if k == 12:
            return ['pred', self.gen_S(env, d - 1), [r.choice(['eq', 'lt']), ['dot'], self.gen_I(env, d - 2)]]
        if k == 13:
            ft = self.rand_ftype('S')
            return ['call', self.gen_F(ft, env, d - 1), [self.gen(p, env, d - 2) for p in ft[1]]]
        if k == 14:
            return self.gen_let('S', env, d)
        if k == 15:
            b = r.choice(['reverse', 'remove', 'index-of', 'insert-before', 'tail'])
            tag = 'bia' if (not self.scope_only and r.random() < 0.35) else 'bi'
            if tag == 'bia' and b in ('remove', 'index-of') and not self.no_partial and r.random() < 0.5:
                # a partial application written with the arrow operator, used twice
                self.features.add('arrow-partial')
                return ['let', 'pp', ['bia', b, self.gen_S(env, d - 1), ['?']],
                        ['seq', ['call', ['var', 'pp'], [self.gen_I(env, 0)]], ['call', ['var', 'pp'], [self.gen_I(env, 0)]]]]
            if b == 'reverse' or b == 'tail':
                return [tag, b, self.gen_S(env, d - 1)]
            if b == 'insert-before':
                return [tag, b, self.gen_S(env, d - 1), self.gen_I(env, d - 2), self.gen_S(env, d - 2)]
            return [tag, b, self.gen_S(env, d - 1), self.gen_I(env, d - 2)]
        return ['seq'] + [['int', r.randint(0, 5)] for _ in range(r.choice([0, 1, 2, 3]))]

    def gen_dot_I(self, env, d):
        r = self.rng
        k = r.randrange(3)
        if k == 0:
            return ['add', ['dot'], self.gen_I(env, d - 1)]
        if k == 1:
            return ['mul', ['dot'], ['int', r.randint(1, 3)]]
        ft = ftype(['I'], 'I')
        return ['call', self.gen_F(ft, env, d - 1), [['dot']]]

    def gen_B(self, env, d):
        r = self.rng
        if d <= 0:
            return [r.choice(['eq', 'lt']), self.gen_I(env, 0), self.gen_I(env, 0)]
        k = r.randrange(7)
        if k in (0, 1):
            return [r.choice(['eq', 'lt']), self.gen_I(env, d - 1), self.gen_I(env, d - 1)]
        if k in (2, 3):
            self.binders += 1
            rng_expr = self.gen_S(env, d - 1)
            name = self.name(env, names_in(rng_expr))
            e2 = dict(env)
            e2[name] = 'I'
            return [r.choice(['some', 'every']), name, rng_expr, self.gen_B(e2, d - 1)]
        if k == 4:
            return ['not', self.gen_B(env, d - 1)]
        if k == 5:
            return ['and', self.gen_B(env, d - 1), self.gen_B(env, d - 1)]
        ft = self.rand_ftype('B')
        return ['call', self.gen_F(ft, env, d - 1), [self.gen(p, env, d - 2) for p in ft[1]]]

    def gen_F(self, ft, env, d):
        r = self.rng
        _, ptypes, ret = ft
        vs = self.vars_of(env, ft)
        k = r.randrange(10)
        if self.scope_only and k in (3, 4):
            k = 9
        if d > 0 and not self.scope_only and r.random() < 0.08:
            # the function is the result of a call: head/tail over a sequence of function items
            self.features.add('function-returned-by-call')
            f1, f2 = self.gen_F(ft, env, d - 1), self.gen_F(ft, env, 0)
            return r.choice([['bi', 'head', ['seq', f1, f2]], ['bi', 'tail', ['seq', f2, f1]],
                             ['bi', 'head', ['bi', 'reverse', ['seq', f2, f1]]]])
        if vs and k < 3:
            return ['var', r.choice(vs)]
        if d > 0 and k == 3 and not self.no_partial:
            # partial application of a wider function
            self.features.add('partial')
            if not ptypes:
                return self.gen_inline(ft, env, d)     # a partial application needs a placeholder
            extra = r.choice([1, 1, 2])
            total = len(ptypes) + extra
            hole_pos = set(r.sample(range(total), len(ptypes)))
            wide2, args, hp = [], [], 0
            for i in range(total):
                if i in hole_pos:
                    wide2.append(ptypes[hp])
                    hp += 1
                    args.append(['?'])
                else:
                    ty = r.choice(['I', 'S'])
                    wide2.append(ty)
                    args.append(self.gen(ty, env, d - 2))
            inner = self.gen_F(ftype(wide2, ret), env, d - 1)
            return ['call', inner, args]
        if k == 7 and not self.no_partial and not self.scope_only:
            # partial application of a built-in function written with the static call syntax
            templ = {
                (('S',), 'S'): [('remove', ['?', 'I']), ('insert-before', ['?', 'I', 'S']), ('reverse', ['?']), ('tail', ['?'])],
                (('I',), 'S'): [('remove', ['S', '?']), ('index-of', ['S', '?']), ('insert-before', ['S', '?', 'S'])],
                (('S',), 'I'): [('count', ['?']), ('sum', ['?'])],
                (('I',), 'I'): [('abs', ['?'])],
                (('S', 'I'), 'S'): [('remove', ['?', '?']), ('index-of', ['?', '?']), ('insert-before', ['?', '?', 'S'])],
                (('S', 'I', 'S'), 'S'): [('insert-before', ['?', '?', '?'])],
                (('S', 'S'), 'S'): [('insert-before', ['?', 'I', '?'])],
            }.get((tuple(ptypes), ret))
            if templ:
                self.features.add('builtin-partial')
                name, spec = r.choice(templ)
                return ['bi', name] + [['?'] if x == '?' else self.gen(x, env, d - 1) for x in spec]
        if k == 4:
            named = {(('I',), 'I'): ['abs'], (('S',), 'I'): ['count', 'sum'], (('S',), 'S'): ['reverse', 'tail'],
                     (('S', 'I'), 'S'): ['remove', 'index-of'], (('S', 'I', 'S'), 'S'): ['insert-before']}
            names = named.get((tuple(ptypes), ret))
            if names:
                self.features.add('named-ref')
                n = r.choice(names)
                return ['named', n, len(ptypes)]
        if d > 0 and k == 5:
            name = self.name(env)
            vt = r.choice(['I', 'S'])
            e2 = dict(env)
            e2[name] = vt
            self.binders += 1
            return ['let', name, self.gen(vt, env, d - 1), self.gen_F(ft, e2, d - 1)]
        if d > 0 and k == 6:
            return ['if', self.gen_B(env, d - 1), self.gen_F(ft, env, d - 1), self.gen_F(ft, env, d - 1)]
        return self.gen_inline(ft, env, d)

    def gen_inline(self, ft, env, d):
        r = self.rng
        _, ptypes, ret = ft
        params = []
        e2 = dict(env)
        for p in ptypes:
            n = self.name(e2)
            while n in params:
                n = r.choice(NAMES + ['a', 'b', 'c'])
            params.append(n)
            e2[n] = p
        if any(p in env for p in params):
            self.features.add('param-shadows-outer')
        if any(k in env for k in env) and env:
            self.features.add('closure-captures')
        return ['fn', params, self.gen(ret, e2, max(0, d - 1))]

    def gen_FS(self, ft, env, d):
        r = self.rng
        vs = self.vars_of(env, ('FS', ft))
        if vs and r.random() < 0.3:
            return ['var', r.choice(vs)]
        if d > 0 and r.random() < 0.6 and not self.no_fn_loops:
            # the same function expression evaluated several times with different captured values
            self.features.add('fn-expr-in-loop')
            rng_expr = self.gen_S(env, d - 1)
            name = self.name(env, names_in(rng_expr))
            e2 = dict(env)
            e2[name] = 'I'
            self.binders += 1
            return ['for', name, rng_expr, self.gen_inline(ft, e2, d - 1)]
        return ['seq'] + [self.gen_F(ft, env, d - 1) for _ in range(r.choice([1, 2, 3]))]


def names_in(ast):
    """Every variable name read or bound anywhere in ast."""
    out = set()
    t = ast[0]
    if t == 'var':
        out.add(ast[1])
    elif t in ('let', 'for', 'some', 'every'):
        out.add(ast[1])
    elif t == 'fn':
        out |= set(ast[1])
    for ch in ast[1:]:
        if isinstance(ch, list):
            if ch and isinstance(ch[0], str):
                out |= names_in(ch)
            else:
                for c in ch:
                    if isinstance(c, list) and c and isinstance(c[0], str):
                        out |= names_in(c)
    return out


def _walk(ast):
    yield ast
    for ch in ast[1:]:
        if isinstance(ch, list):
            if ch and isinstance(ch[0], str):
                for x in _walk(ch):
                    yield x
            else:
                for c in ch:
                    if isinstance(c, list) and c and isinstance(c[0], str):
                        for x in _walk(c):
                            yield x


def param_names(ast):
    out = set()
    for n in _walk(ast):
        if n[0] == 'fn':
            out |= set(n[1])
    return out


def binder_names(ast):
    return set(n[1] for n in _walk(ast) if n[0] in ('let', 'for', 'some', 'every'))


def size(ast):
    n = 1
    for ch in ast[1:]:
        if isinstance(ch, list):
            if ch and isinstance(ch[0], str):
                n += size(ch)
            else:
                for c in ch:
                    if isinstance(c, list) and c and isinstance(c[0], str):
                        n += size(c)
    return n


def value_to_canon(v):
    """Model value -> the canonical form sim.canon.canon gives for the engine's value."""
    out = []
    for x in v:
        if isinstance(x, bool):
            out.append(['bool', x])
        elif isinstance(x, int):
            out.append(['int', str(x)])
        elif isinstance(x, Fn):
            out.append(['function', x.arity])
        elif isinstance(x, Arr):
            out.append(['array', [value_to_canon(m) for m in x.members]])
        elif isinstance(x, Map1):
            out.append(['map', [[['str', k], value_to_canon(val)] for k, val in sorted(x.entries.items())]])
    return out
