"""
C13 arm (g): histories of install_unicode_data() - process-global configuration - with downloads
through the simulated network that can fail or be torn, interleaved with uses of the lazily
cached shortcut subsets and of CharacterClass / translate_pattern.

Invariants after every operation:
 * installed version == the interpreter's Unicode version  =>  every category equals the bitset
   computed from unicodedata.category over ALL 0x110000 code points (exhaustive);
 * always: the two-letter categories partition the code space, each major category is the union of
   its subcategories, the blocks are pairwise disjoint;
 * a failed install leaves the previously installed data fully in effect;
 * the cached shortcut subsets are consistent with the newly installed tables
   (CharacterClass('\\w') == L|M|N|S, '\\d' == Nd of the installed version);
 * using CharacterClass / translate_pattern never changes the global tables (no aliasing leak).
"""
import hashlib
import unicodedata

from ..refmodel import bitset as B

from .. import runner

NAME = 'c13g'

VERSIONS = ['16.0.0', '15.1.0', '15.0.0', '14.0.0', '13.0.0', '12.1.0', '11.0.0', '10.0.0', '9.0.0', '8.0.0',
            '7.0.0', '6.3.0', '6.0.0', '5.2.0', '5.0.0', '4.1.0', '4.0.0', '3.2.0', '3.0.0', '2.1.9', '2.0.0']
FAULTS = [None, None, 'enoent', 'reset-midread', 'timeout', 'http-404', 'http-500', 'incomplete-read', 'truncated',
          'urlerror', 'invalid-url', 'short-reads']
PATTERNS = ['\\w+', '[\\d\\s]', '\\p{Lu}\\p{Ll}*', '[\\P{Nd}-[a-z]]', '\\p{IsBasicLatin}+', '[^\\W\\d]', '\\i\\c*',
            '[\\p{L}-[\\p{Lu}]]', '\\S\\D', '[a-z-[aeiou]]']
MAJORS = 'LMNPSZC'

_DATA = {}


def unicode_data_txt():
    """A UnicodeData.txt synthesised from the interpreter's unicodedata (ranges as First/Last pairs)."""
    if 'txt' not in _DATA:
        lines = []
        cat = unicodedata.category
        cp = 0
        while cp <= B.MAXCP:
            c = cat(chr(cp))
            if c == 'Cn':
                cp += 1
                continue
            end = cp
            while end + 1 <= B.MAXCP and cat(chr(end + 1)) == c:
                end += 1
            if end - cp >= 64:
                lines.append('%04X;<R%04X, First>;%s;0;L;;;;;N;;;;;' % (cp, cp, c))
                lines.append('%04X;<R%04X, Last>;%s;0;L;;;;;N;;;;;' % (end, cp, c))
            else:
                for x in range(cp, end + 1):
                    lines.append('%04X;C%04X;%s;0;L;;;;;N;;;;;' % (x, x, c))
            cp = end + 1
        _DATA['txt'] = ('\n'.join(lines) + '\n').encode('ascii')
    return _DATA['txt']


def warmup():
    B.category_bits()
    unicode_data_txt()


def gen_case(rng, tier):
    thorough = tier == 'thorough'
    nops = rng.randint(2, 14 if thorough else 7)
    own = unicodedata.unidata_version
    ops = []
    for _ in range(nops):
        x = rng.random()
        if x < 0.3:
            ops.append({'op': 'install', 'version': rng.choice(VERSIONS + [own, own, None])})
        elif x < 0.55:
            ops.append({'op': 'install_url', 'version': own, 'fault': rng.choice(FAULTS)})
        elif x < 0.62:
            ops.append({'op': 'install', 'version': rng.choice(['99.0.0', '15', '', '1.1.0'])})     # invalid version
        elif x < 0.85:
            ops.append({'op': 'use', 'pattern': rng.choice(PATTERNS)})
        else:
            ops.append({'op': 'mutate_class', 'text': rng.choice(['\\w', '\\d', '\\p{Lu}', '\\p{IsGreek}', '\\s'])})
    return {'config': {}, 'ops': ops}


def run_case(case, world):
    import elementpath
    from elementpath.regex import CharacterClass, unicode_category, unicode_block, translate_pattern, RegexError
    from elementpath.regex import unicode_subsets as US
    from elementpath.regex.unicode_subsets import unicode_version
    import warnings
    warnings.simplefilter('ignore')
    violations = []
    stats = {'ops': 0, 'installs': 0, 'failed_installs': 0, 'exhaustive_table_checks': 0, 'structure_checks': 0,
             'codepoints_compared': 0}
    own = unicodedata.unidata_version
    shape = []
    url = 'http://sim.test/UnicodeData.txt'
    world.fs.add(url, unicode_data_txt())

    def violate(cls, signature, detail, features=()):
        violations.append({'cls': cls, 'signature': signature, 'detail': detail, 'features': sorted(set(features))})

    def cat_names():
        data = getattr(US, '_UnicodeData__unicode_data', None)
        # the accessor API has no listing: the two-letter names are fixed by the Unicode standard
        return ['Lu', 'Ll', 'Lt', 'Lm', 'Lo', 'Mn', 'Mc', 'Me', 'Nd', 'Nl', 'No', 'Pc', 'Pd', 'Ps', 'Pe', 'Pi', 'Pf',
                'Po', 'Sm', 'Sc', 'Sk', 'So', 'Zs', 'Zl', 'Zp', 'Cc', 'Cf', 'Cs', 'Co', 'Cn']

    def table_bits():
        out = {}
        for n in cat_names() + list(MAJORS):
            try:
                out[n] = B.from_codepoints(unicode_category(n).codepoints)
            except KeyError:
                out[n] = None
        return out

    def digest(tb):
        h = hashlib.sha256()
        for k in sorted(tb):
            v = tb[k]
            h.update(k.encode())
            h.update(b'-' if v is None else v.to_bytes((B.MAXCP + 8) // 8, 'little'))
        return h.hexdigest()

    def check_tables(after, feats):
        tb = table_bits()
        ver = unicode_version()
        stats['structure_checks'] += 1
        subs = [n for n in cat_names() if tb[n] is not None]
        union = 0
        for n in subs:
            if union & tb[n]:
                violate('TABLES', 'categories-overlap', 'after %s (version %s) category %s overlaps another one' % (
                    after, ver, n), feats)
                break
            union |= tb[n]
        if union != B.FULL:
            violate('TABLES', 'categories-do-not-cover', 'after %s (version %s) %d code points have no category' % (
                after, ver, B.popcount(B.FULL & ~union)), feats)
        for m in MAJORS:
            if tb[m] is None:
                continue
            u = 0
            for n in subs:
                if n[0] == m:
                    u |= tb[n]
            if u != tb[m]:
                violate('TABLES', 'major-not-union:%s' % m, 'after %s (version %s) %s differs from the union of its '
                        'subcategories on %d code points' % (after, ver, m, B.popcount(u ^ tb[m])), feats)
        if ver == own:
            stats['exhaustive_table_checks'] += 1
            ref = B.category_bits()
            for n in subs + list(MAJORS):
                stats['codepoints_compared'] += B.MAXCP + 1
                want = ref.get(n, 0)
                if tb[n] is not None and tb[n] != want:
                    d = tb[n] ^ want
                    violate('TABLES', 'category-differs-from-unicodedata:%s' % n,
                            'after %s category %s differs from unicodedata (%s) on %d code points, first %r' % (
                                after, n, own, B.popcount(d), B.intervals(d)[:3]), feats)
                    break
        # cached shortcut subsets must follow the installed tables
        w = CharacterClass('\\w')
        wbits = B.from_codepoints(w.positive.codepoints)
        want = 0
        for m in 'LMNS':
            want |= tb[m] or 0
        if wbits != want or w.negative:
            violate('STALE_CACHE', 'shortcut-w-stale', "after %s (version %s) CharacterClass('\\w') differs from L|M|N|S "
                    'of the installed tables on %d code points' % (after, ver, B.popcount(wbits ^ want)), feats)
        d = CharacterClass('\\d')
        if B.from_codepoints(d.positive.codepoints) != tb['Nd']:
            violate('STALE_CACHE', 'shortcut-d-stale', "after %s (version %s) CharacterClass('\\d') differs from Nd of the "
                    'installed tables' % (after, ver), feats)
        return tb

    def all_block_names():
        from elementpath.regex import unicode_blocks as UB
        names = set()
        for k, v in vars(UB).items():
            if isinstance(v, dict) and (k.startswith('UNICODE_BLOCKS_VER_') or k.startswith('UPDATE_BLOCKS_VER_')):
                names.update(v)
        # names superseded up to the installed version stay available for XSD compatibility (e.g. Greek next to
        # GreekandCoptic): they are aliases by design, not blocks of the installed version
        ver = tuple(int(x) for x in unicode_version().split('.'))
        superseded = set()
        for k, v in vars(UB).items():
            if k.startswith('REMOVED_BLOCKS_VER_') and tuple(int(x) for x in k[19:].split('_')) <= ver:
                superseded.update(v)
        return sorted(n.replace(' ', '').replace('_', '') for n in names if n not in superseded)

    def check_blocks(feats):
        """All blocks the installed version defines are pairwise disjoint."""
        seen = []
        for n in all_block_names():
            try:
                b = B.from_codepoints(unicode_block(n).codepoints)
            except KeyError:
                continue
            for m_, bm in seen:
                if bm & b:
                    violate('TABLES', 'blocks-overlap', 'blocks %s and %s overlap on %r (version %s)' % (
                        m_, n, B.intervals(bm & b)[:3], unicode_version()),
                        feats + ['blocks:%s+%s' % tuple(sorted((m_, n)))])
                    return
            seen.append((n, b))
        stats['blocks_checked'] = stats.get('blocks_checked', 0) + len(seen)

    def block_digests():
        out = {}
        for n in all_block_names():
            try:
                out[n] = hashlib.sha256(repr(list(unicode_block(n).codepoints)).encode()).hexdigest()[:12]
            except KeyError:
                pass
        return out

    def fresh_blocks(version):
        """Blocks of `version` as a process that has installed nothing else sees them."""
        def child():
            elementpath.install_unicode_data(version)
            return block_digests()
        st, val = runner.fork_call(child, timeout=60)
        return val if st == 'ok' and isinstance(val, dict) and 'harness_error' not in val else None

    # references are taken now, from children of this process while it has installed nothing yet
    fresh_cache = {}
    install_versions = [op.get('version') for op in case['ops'] if op['op'] == 'install' and not op.get('fault')]
    if len(install_versions) > 1:
        for v_ in sorted(set(install_versions), key=str)[:4]:
            fresh_cache[v_] = fresh_blocks(v_)
    prev = check_tables('start', ['start'])
    prev_ver = unicode_version()
    for idx, op in enumerate(case['ops']):
        stats['ops'] += 1
        kind = op['op']
        feats = ['op:' + kind]
        world.event(('op', idx, kind, op.get('version'), op.get('fault')))
        shape.append(kind + ':' + str(op.get('fault') or op.get('version') or op.get('pattern') or ''))
        if kind in ('install', 'install_url'):
            stats['installs'] += 1
            before = digest(prev)
            try:
                if kind == 'install':
                    elementpath.install_unicode_data(op['version'])
                else:
                    world.fs.faults.pop(url, None)
                    if op.get('fault'):
                        world.fs.faults[url] = op['fault']
                        feats.append('fault:' + op['fault'])
                    elementpath.install_unicode_data(op['version'], url)
                ok = True
            except Exception as e:
                ok = False
                stats['failed_installs'] += 1
                world.event(('install-failed', idx, type(e).__name__))
            if not ok:
                now = table_bits()
                if digest(now) != before or unicode_version() != prev_ver:
                    violate('FAILED_INSTALL', 'failed-install-changed-tables', 'install %r failed but the installed '
                            'data changed (version %s -> %s)' % (op, prev_ver, unicode_version()), feats)
                    prev = now
                    prev_ver = unicode_version()
                # the caches must still describe the old data
                check_tables('failed install', feats)
            else:
                if op.get('fault') == 'truncated':
                    # a silently truncated download is undetectable: only structure is demanded afterwards
                    world.probe('truncated-download-installed')
                    elementpath.install_unicode_data()      # operator restores the default data
                prev = check_tables(kind, feats)
                prev_ver = unicode_version()
                check_blocks(feats)
                if kind == 'install' and stats['installs'] > 1 and op.get('fault') is None:
                    # the blocks are a function of the installed version: the same as in a process that has never
                    # had another version installed
                    ver_ = unicode_version()
                    ref_ = fresh_cache.get(op['version'])
                    if ref_ is not None:
                        now_ = block_digests()
                        diff_ = sorted(n for n in set(ref_) | set(now_) if ref_.get(n) != now_.get(n))
                        if diff_:
                            violate('STALE_CACHE', 'blocks-depend-on-install-history', 'after installing %s the blocks %r '
                                    'differ from those of a process that installed only this version' % (ver_, diff_[:4]), feats)
        elif kind == 'use':
            try:
                translate_pattern(op['pattern'])
            except RegexError as e:
                world.event(('regex-error', idx, str(e)[:60]))
            now = table_bits()
            if digest(now) != digest(prev):
                violate('ALIASING', 'use-changed-global-tables', 'translate_pattern(%r) changed the installed category '
                        'tables' % op['pattern'], feats)
                prev = now
        elif kind == 'mutate_class':
            cc = CharacterClass(op['text'])
            cc.add('0-9a-z')
            cc.discard('\\p{L}')
            cc -= CharacterClass('\\w')
            cc.clear()
            now = table_bits()
            if digest(now) != digest(prev):
                violate('ALIASING', 'class-mutation-changed-global-tables', 'mutating a CharacterClass built from %r '
                        'changed the installed category tables' % op['text'], feats)
                prev = now
            check_tables('class mutation', feats)
    nontrivial = []
    if stats['installs']:
        nontrivial = [hashlib.sha256('|'.join(shape).encode()).hexdigest()[:16]]
    return {'violations': violations, 'stats': stats, 'nontrivial': nontrivial}
