"""
The simulated world: every source of nondeterminism or environment interaction that the
claimed properties depend on goes behind a seam owned by this module.

install() MUST be called before `elementpath` is imported, so that the seams are in place
regardless of import style (`import locale` vs `from urllib.request import urlopen`).

Seams (stub)                                 real code above the seam
-------------------------------------------  ------------------------------------------
locale._setlocale / strcoll / strxfrm        stdlib locale.setlocale/getlocale/normalize,
                                             all of elementpath.collations and callers
threading.Lock / RLock (elementpath callers) _locale_collate_lock and any later lock
urllib.request.urlopen, pathlib.Path.open    json-doc, unparsed-text*, install_unicode_data
os.environ sentinels                         environment-variable functions
sys.monitoring LINE events in elementpath/   step counting, pre-emption points, async faults
"""
import io
import os
import sys
import locale as _pylocale
import _locale as _clocale
import threading as _threading
import _thread
import urllib.request
import urllib.error
import http.client
import pathlib
import hashlib
import json

REPO = os.environ.get('VERIF_REPO', '/repo')
EP_PREFIX = os.path.join(os.path.realpath(REPO), 'elementpath') + os.sep


class SimDeadlock(BaseException):
    """Raised inside the system under test when a task blocks forever on a SimLock."""


class SimHang(BaseException):
    """Raised inside the system under test when an operation exceeds its step budget."""


class SimCrash(BaseException):
    """Asynchronous fault injected at an arbitrary line event (a 'crash point')."""


# --------------------------------------------------------------------------------------
# locale
# --------------------------------------------------------------------------------------

ALL_LOCALES = [
    'en_US.UTF-8', 'it_IT.UTF-8', 'de_DE.UTF-8', 'tr_TR.UTF-8', 'fr_FR.UTF-8',
    'it_IT.ISO8859-1', 'sr_RS.UTF-8@latin', 'ja_JP.UTF-8',
]
ALWAYS_INSTALLED = ['C', 'POSIX', 'C.UTF-8']

LC_NAMES = {}
for _n in ('LC_CTYPE', 'LC_COLLATE', 'LC_TIME', 'LC_MONETARY', 'LC_MESSAGES', 'LC_NUMERIC'):
    LC_NAMES[getattr(_clocale, _n)] = _n
LC_ALL = _clocale.LC_ALL
LC_COLLATE = _clocale.LC_COLLATE


def _canon_codeset(cs):
    return cs.lower().replace('-', '').replace('_', '')


def locale_identity(name):
    """glibc-style identity of a locale name: language_TERRITORY, codeset folded, @modifier."""
    if name in ('C', 'POSIX'):
        return 'C'
    modifier = ''
    if '@' in name:
        name, modifier = name.split('@', 1)
        modifier = '@' + modifier
    codeset = ''
    if '.' in name:
        name, codeset = name.split('.', 1)
        codeset = '.' + _canon_codeset(codeset)
    if name in ('C', 'POSIX'):
        name = 'C'
    return name + codeset + modifier


_ACCENTS = str.maketrans('àáâãäåèéêëìíîïòóôõöùúûüçñ', 'aaaaaaeeeeiiiiooooouuuucn')


def _xfrm_for(identity):
    lang = identity.split('.')[0].split('_')[0]
    if identity == 'C' or identity.startswith('C.'):
        return lambda s: s
    if lang == 'en':
        return lambda s: s.casefold()
    if lang in ('it', 'fr'):
        return lambda s: s.casefold().translate(_ACCENTS)
    if lang == 'de':
        return lambda s: s.casefold().replace('ä', 'ae').replace('ö', 'oe').replace('ü', 'ue')
    if lang == 'tr':
        return lambda s: s.replace('I', 'ı').replace('İ', 'i').casefold()
    if lang == 'sr':
        return lambda s: s.casefold()[::-1]
    return lambda s: s.swapcase()


class SimLocale:
    def __init__(self):
        self.reset()

    def reset(self, installed=(), initial='C', user_default='C'):
        self.installed = {}     # identity -> canonical spelling
        for name in list(ALWAYS_INSTALLED) + list(installed):
            self.installed[locale_identity(name)] = name
        self.user_default = user_default
        self.after_set = getattr(self, 'after_set', None)
        self.current = {cat: 'C' for cat in LC_NAMES}
        self.fail_plan = set()     # indexes (1-based) of *setting* calls that fail
        self.fail_always = False
        self.fail_only_new = False     # never refuse a locale that was installed successfully before
        self.ok_identities = set()
        self.set_calls = 0
        self.query_calls = 0
        self.faults_fired = 0
        self.fault_values = []
        self.strcoll_calls = 0
        self.log = None            # optional event sink
        self.initial_identity = locale_identity(initial)
        if initial != 'C':
            assert locale_identity(initial) in self.installed, 'initial locale must be installed'
            self.current[LC_COLLATE] = initial
        self.initial_identity = self.identity()

    # --- the C primitives -----------------------------------------------------------
    def setlocale(self, category, value=None):
        if category != LC_ALL and category not in LC_NAMES:
            raise _pylocale.Error('invalid locale category')
        if value is None:
            self.query_calls += 1
            if category == LC_ALL:
                vals = set(self.current.values())
                if len(vals) == 1:
                    return next(iter(vals))
                return ';'.join('%s=%s' % (LC_NAMES[c], v) for c, v in sorted(self.current.items()))
            return self.current[category]
        if not isinstance(value, str):
            raise TypeError('setlocale() argument 2 must be str or None')
        if '\x00' in value:
            raise ValueError('embedded null character')        # as the C-level setlocale wrapper does
        self.set_calls += 1
        if self.log is not None:
            self.log(('setlocale', LC_NAMES.get(category, 'LC_ALL'), value))
        name = self.user_default if value == '' else value
        ident = locale_identity(name)
        if (self.fail_always or self.set_calls in self.fail_plan) and not (
                self.fail_only_new and (ident in self.ok_identities or ident == self.initial_identity)):
            self.faults_fired += 1
            self.fault_values.append(value)
            if self.log is not None:
                self.log(('setlocale-fault', self.set_calls))
            raise _pylocale.Error('unsupported locale setting')
        if ident not in self.installed:
            raise _pylocale.Error('unsupported locale setting')
        self.ok_identities.add(ident)
        if category == LC_ALL:
            for c in self.current:
                self.current[c] = name
        else:
            self.current[category] = name
        if self.after_set is not None:
            self.after_set()        # a seam-level scheduling point: the process locale has just been switched
        return name

    def identity(self, category=LC_COLLATE):
        return locale_identity(self.current[category])

    def _xfrm(self):
        return _xfrm_for(self.identity())

    def strxfrm(self, s):
        if not isinstance(s, str):
            raise TypeError('strxfrm() argument 1 must be str')
        self.strcoll_calls += 1
        return self._xfrm()(s)

    def strcoll(self, a, b):
        if not isinstance(a, str) or not isinstance(b, str):
            raise TypeError('strcoll() arguments must be str')
        self.strcoll_calls += 1
        f = self._xfrm()
        x, y = f(a), f(b)
        return (x > y) - (x < y)


# --------------------------------------------------------------------------------------
# locks
# --------------------------------------------------------------------------------------

class SimLock:
    """
    Same contract as threading.Lock. An acquire on a held lock never blocks the OS thread
    silently: with a scheduler attached the task is parked (and all-blocked deadlock is
    detected); without one (single-threaded histories) a blocking acquire of a held lock
    can never succeed, so it is reported as SimDeadlock at once.
    """
    reentrant = False

    def __init__(self, world, where):
        self.world = world
        self.where = where
        self.owner = None
        self.owner_task = None
        self.count = 0
        self.acquires = 0
        world.locks.append(self)

    def _ident(self):
        # a plain Lock has no owner identity (any task blocks); an RLock is re-entrant per OS thread
        return self.world.current_thread() if self.reentrant else self.world.current_task()

    def acquire(self, blocking=True, timeout=-1):
        w = self.world
        me = self._ident()
        w.point('lock-acquire')
        while True:
            if self.owner is None or (self.reentrant and self.owner == me):
                if self.owner is None:
                    self.owner_task = w.current_task()
                self.owner = me
                self.count += 1
                self.acquires += 1
                w.event(('lock-acquired', self.where, str(w.current_task())))
                return True
            if not blocking:
                return False
            # a real threading.Lock with a timeout would return False later; the code under
            # test never uses one, so treat it like a plain blocking acquire.
            w.event(('lock-blocked', self.where, str(w.current_task()), str(self.owner_task)))
            w.probe('lock-contended')
            if w.sched is None:
                exc = SimDeadlock('%s blocks forever on %s held by %s' % (
                    w.current_task(), self.where, self.owner_task))
                exc.owner = str(self.owner_task)
                exc.task = str(w.current_task())
                raise exc
            w.sched.block_on(self)   # returns when the lock may be free; raises SimDeadlock otherwise

    def release(self):
        if self.owner is None:
            raise RuntimeError('release unlocked lock')
        if self.reentrant and self.owner != self._ident():
            raise RuntimeError('cannot release un-acquired lock')
        self.count -= 1
        if self.count == 0:
            self.owner = None
            self.owner_task = None
            self.world.event(('lock-released', self.where))
            if self.world.sched is not None:
                self.world.sched.lock_released(self)
        self.world.point('lock-release')

    def locked(self):
        return self.owner is not None

    def _at_fork_reinit(self):
        self.owner = None
        self.count = 0

    __enter__ = acquire

    def __exit__(self, *a):
        self.release()


class SimRLock(SimLock):
    reentrant = True

    def _is_owned(self):
        return self.owner == self.world.current_thread()


# --------------------------------------------------------------------------------------
# filesystem / network
# --------------------------------------------------------------------------------------

class _FaultyReader(io.RawIOBase):
    """A byte stream that can deliver short reads and fail part-way."""

    def __init__(self, data, fail_after=None, exc=None, chunk=None):
        self.data = data
        self.pos = 0
        self.fail_after = fail_after
        self.exc = exc
        self.chunk = chunk

    def readable(self):
        return True

    def readinto(self, b):
        if self.fail_after is not None and self.pos >= self.fail_after:
            raise self.exc
        n = len(b)
        if self.chunk:
            n = min(n, self.chunk)
        end = self.pos + n
        if self.fail_after is not None:
            end = min(end, self.fail_after) if self.fail_after > self.pos else end
        chunk = self.data[self.pos:end]
        b[:len(chunk)] = chunk
        self.pos += len(chunk)
        return len(chunk)


class _Response(io.BufferedReader):
    def __init__(self, raw, url):
        super().__init__(raw)
        self.url = url
        self.status = 200
        self.headers = {}

    def geturl(self):
        return self.url

    def getcode(self):
        return 200

    def info(self):
        return self.headers


FAULT_KINDS = ['enoent', 'eacces', 'eisdir', 'timeout', 'reset-midread', 'truncated',
               'invalid-utf8', 'http-404', 'http-500', 'invalid-url', 'incomplete-read',
               'nul-path', 'torn-utf8', 'short-reads', 'urlerror', 'valueerror-url']


class SimFS:
    """Virtual files and URLs, each with byte content and an optional fault."""

    def __init__(self, world):
        self.world = world
        self.reset()

    def reset(self):
        self.files = {}      # key (url or path) -> bytes
        self.faults = {}     # key -> fault kind
        self.default_fault = None
        self.access_log = []
        self.fired = {}

    def add(self, key, data, fault=None):
        self.files[key] = data
        if fault:
            self.faults[key] = fault

    def _fire(self, kind):
        self.fired[kind] = self.fired.get(kind, 0) + 1
        self.world.event(('io-fault', kind))

    def _open(self, key, kind):
        self.access_log.append((kind, key))
        self.world.event(('io-open', kind, key))
        self.world.point('io')
        if '\x00' in key:
            self._fire('nul-path')
            raise ValueError('embedded null byte')
        fault = self.faults.get(key, self.default_fault)
        data = self.files.get(key)
        if fault == 'invalid-url':
            self._fire(fault)
            raise http.client.InvalidURL("URL can't contain control characters")
        if fault == 'valueerror-url':
            self._fire(fault)
            raise ValueError('unknown url type: %r' % key)
        if fault == 'urlerror':
            self._fire(fault)
            raise urllib.error.URLError('name resolution failed')
        if fault == 'enoent' or (data is None and fault is None):
            self._fire('enoent')
            if kind == 'url' and not key.startswith('file:'):
                raise urllib.error.URLError(FileNotFoundError(2, 'No such file or directory'))
            if kind == 'url':
                raise urllib.error.URLError(FileNotFoundError(2, 'No such file or directory'))
            raise FileNotFoundError(2, 'No such file or directory', key)
        if fault == 'eacces':
            self._fire(fault)
            if kind == 'url':
                raise urllib.error.URLError(PermissionError(13, 'Permission denied'))
            raise PermissionError(13, 'Permission denied', key)
        if fault == 'eisdir':
            self._fire(fault)
            if kind == 'url':
                raise urllib.error.URLError(IsADirectoryError(21, 'Is a directory'))
            raise IsADirectoryError(21, 'Is a directory', key)
        if fault == 'timeout':
            self._fire(fault)
            raise TimeoutError('timed out')
        if fault == 'http-404':
            self._fire(fault)
            raise urllib.error.HTTPError(key, 404, 'Not Found', {}, None)
        if fault == 'http-500':
            self._fire(fault)
            raise urllib.error.HTTPError(key, 500, 'Internal Server Error', {}, None)
        data = data if data is not None else b''
        raw = None
        if fault == 'reset-midread':
            self._fire(fault)
            raw = _FaultyReader(data, len(data) // 2, ConnectionResetError(104, 'Connection reset by peer'))
        elif fault == 'incomplete-read':
            self._fire(fault)
            raw = _FaultyReader(data, len(data) // 2, http.client.IncompleteRead(data[:len(data) // 2]))
        elif fault == 'truncated':
            self._fire(fault)
            raw = _FaultyReader(data[:len(data) // 2])
        elif fault == 'torn-utf8':
            self._fire(fault)
            cut = len(data)
            for i, b in enumerate(data):
                if b >= 0xC0:
                    cut = i + 1
                    break
            raw = _FaultyReader(data[:cut])
        elif fault == 'invalid-utf8':
            self._fire(fault)
            raw = _FaultyReader(b'\xff\xfe\x80' + data + b'\xc3')
        elif fault == 'short-reads':
            self._fire(fault)
            raw = _FaultyReader(data, chunk=3)
        else:
            raw = _FaultyReader(data)
        return raw

    def urlopen(self, url, *args, **kwargs):
        if not isinstance(url, str):
            url = getattr(url, 'full_url', str(url))
        raw = self._open(url, 'url')
        return _Response(raw, url)

    def path_open(self, path, mode='r', buffering=-1, encoding=None, errors=None, newline=None):
        raw = self._open(str(path), 'path')
        if 'b' in mode:
            return io.BufferedReader(raw)
        return io.TextIOWrapper(io.BufferedReader(raw), encoding=encoding or 'utf-8',
                                errors=errors, newline=newline)


# --------------------------------------------------------------------------------------
# the world
# --------------------------------------------------------------------------------------

class World:
    def __init__(self):
        self.locale = SimLocale()
        self.locale.after_set = lambda: self.point('setlocale')
        self.fs = SimFS(self)
        self.locks = []
        self.sched = None
        self.events = []
        self.probes = {}
        self.task = 'main'
        self.installed = False
        # step counting / async faults (sys.monitoring)
        self.steps = 0
        self.step_budget = None
        self.crash_at = None
        self.crash_fired = 0
        self.monitoring = False
        self._code_cache = {}
        self.point_hook = None
        self.real_setlocale = _clocale.setlocale
        self.tracing_lines = False
        self.frozen = False

    # --- tasks, events, probes ---------------------------------------------------------
    def current_task(self):
        if self.sched is not None:
            return self.sched.current_task()
        return self.task

    def current_thread(self):
        if self.sched is not None:
            return self.sched.current_thread()
        return 'T0'

    def event(self, ev):
        if not self.frozen:
            self.events.append(ev)

    def probe(self, name, n=1):
        self.probes[name] = self.probes.get(name, 0) + n

    def point(self, kind):
        """A seam-level scheduling point."""
        if self.sched is not None:
            self.sched.point(kind)

    def digest(self):
        h = hashlib.sha256(json.dumps(self.events, sort_keys=True, default=str).encode())
        return h.hexdigest()[:32]

    # --- install -------------------------------------------------------------------------
    def install(self):
        assert 'elementpath' not in sys.modules, 'world must be installed before elementpath import'
        w = self
        _pylocale._setlocale = self.locale.setlocale
        _pylocale.strcoll = lambda a, b: w.locale.strcoll(a, b)
        _pylocale.strxfrm = lambda s: w.locale.strxfrm(s)

        real_lock = _threading.Lock
        real_rlock = _threading.RLock

        def Lock():
            mod = sys._getframe(1).f_globals.get('__name__', '')
            if mod == 'elementpath' or mod.startswith('elementpath.'):
                return SimLock(w, mod)
            return real_lock()

        def RLock():
            mod = sys._getframe(1).f_globals.get('__name__', '')
            if mod == 'elementpath' or mod.startswith('elementpath.'):
                return SimRLock(w, mod)
            return real_rlock()

        _threading.Lock = Lock
        _threading.RLock = RLock

        real_urlopen = urllib.request.urlopen
        real_path_open = pathlib.Path.open
        real_active_count = _threading.active_count

        def active_count():
            # the thread census of the simulated process: a thread exists from its first step to its last (the real
            # thread objects of the scheduler are all created up front, and the scheduler itself is a thread)
            mod = sys._getframe(1).f_globals.get('__name__', '')
            if mod.startswith('elementpath') and w.sched is not None:
                return max(1, len(w.sched.begun))
            return real_active_count()

        _threading.active_count = active_count

        def urlopen(url, *a, **k):
            mod = sys._getframe(1).f_globals.get('__name__', '')
            if mod.startswith('elementpath'):
                return w.fs.urlopen(url, *a, **k)
            return real_urlopen(url, *a, **k)

        def path_open(self_, *a, **k):
            mod = sys._getframe(1).f_globals.get('__name__', '')
            if mod.startswith('elementpath'):
                return w.fs.path_open(self_, *a, **k)
            return real_path_open(self_, *a, **k)

        urllib.request.urlopen = urlopen
        pathlib.Path.open = path_open
        self.installed = True

    # --- step counting / async faults ------------------------------------------------------
    def start_monitoring(self):
        if self.monitoring:
            return
        M = sys.monitoring
        M.use_tool_id(3, 'verif-sim')
        M.register_callback(3, M.events.LINE, self._line_cb)
        M.set_events(3, M.events.LINE)
        self.monitoring = True

    def stop_monitoring(self):
        if not self.monitoring:
            return
        M = sys.monitoring
        M.set_events(3, 0)
        M.register_callback(3, M.events.LINE, None)
        M.free_tool_id(3)
        self.monitoring = False

    def _line_cb(self, code, lineno):
        ok = self._code_cache.get(code)
        if ok is None:
            ok = self._code_cache[code] = code.co_filename.startswith(EP_PREFIX)
        if not ok:
            return sys.monitoring.DISABLE
        self.steps += 1
        if self.crash_at is not None and self.steps == self.crash_at:
            if lineno in cleanup_lines(code.co_filename):
                # an asynchronous exception inside a finally body / __exit__ cannot be survived by any
                # program; the crash is deferred to the first line after the clean-up code
                self.crash_at += 1
                self.probe('crash-deferred-out-of-cleanup')
                return None
            self.crash_fired += 1
            self.crash_at = None
            raise SimCrash('crash at step %d (%s:%d)' % (self.steps, os.path.basename(code.co_filename), lineno))
        if self.step_budget is not None and self.steps > self.step_budget:
            self.step_budget = None
            raise SimHang('step budget exceeded at %s:%d' % (os.path.basename(code.co_filename), lineno))
        if self.tracing_lines and self.sched is not None:
            self.sched.point('line')

    # --- invariants ------------------------------------------------------------------------
    def real_lc_collate(self):
        return self.real_setlocale(LC_COLLATE, None)

    def locks_held(self):
        return [lk.where for lk in self.locks if lk.locked()]


_CLEANUP = {}


def cleanup_lines(filename):
    """Line numbers inside `finally:` bodies and __exit__/__del__ methods of a source file."""
    got = _CLEANUP.get(filename)
    if got is None:
        import ast
        got = set()
        try:
            with open(filename) as fp:
                tree = ast.parse(fp.read())
            for node in ast.walk(tree):
                body = []
                if isinstance(node, ast.Try):
                    body = node.finalbody
                elif isinstance(node, (ast.FunctionDef, ast.AsyncFunctionDef)) and node.name in ('__exit__', '__del__'):
                    body = node.body
                for st in body:
                    for ln in range(st.lineno, (st.end_lineno or st.lineno) + 1):
                        got.add(ln)
        except (OSError, SyntaxError):
            pass
        _CLEANUP[filename] = got
    return got


WORLD = World()


def install():
    WORLD.install()
    return WORLD
