"""
C15: operation histories over a pool of aliasing map/array values.

Every result goes back into the pool and later operations take any pool member as an operand
(the very same Python objects, passed back through `variables=`). After every operation the
result is observed through the public map:/array: functions and compared with a persistent
reference model, and EVERY pool member is re-observed: it must still equal what it was
(the immutability clause, which needs a history: the operand has to be looked at again later).
"""
import hashlib

from ..refmodel import maparray as M
from ..canon import canon, canon_exc, is_ep_error

NAME = 'c15'

# (xpath text, canonical form, key class)
ATOMS = [
    ("0", ['int', '0']), ("1", ['int', '1']), ("2", ['int', '2']), ("-1", ['int', '-1']), ("10", ['int', '10']),
    ("1.0", ['Decimal', '1.0']), ("2.5", ['Decimal', '2.5']), ("0.0", ['Decimal', '0.0']),
    ("1e0", ['float', '1.0']), ("2.5e0", ['float', '2.5']), ("xs:double('NaN')", ['float', 'NaN']),
    ("xs:double('INF')", ['float', 'inf']), ("-0e0", ['float', '-0.0']), ("0e0", ['float', '0.0']),
    ("xs:float('NaN')", ['Float', 'NaN']), ("xs:float(1)", ['Float', '1.0']),
    ("'a'", ['str', 'a']), ("'b'", ['str', 'b']), ("''", ['str', '']), ("'1'", ['str', '1']),
    ("xs:anyURI('a')", ['AnyURI', 'a']), ("xs:untypedAtomic('a')", ['UntypedAtomic', 'a']),
    ("xs:untypedAtomic('1')", ['UntypedAtomic', '1']),
    ("true()", ['bool', True]), ("false()", ['bool', False]),
    ("xs:QName('xs:a')", ['QName', 'xs:a']), ("xs:date('2000-01-01Z')", ['Date10', '2000-01-01Z']),
    ("xs:dayTimeDuration('PT1S')", ['DayTimeDuration', 'PT1S']),
    ("0.1", ['Decimal', '0.1']), ("0.1e0", ['float', '0.1']), ("1.1", ['Decimal', '1.1']), ("1.1e0", ['float', '1.1']),
    ("xs:float('0.1')", ['Float', '0.1']),
    ("xs:hexBinary('61')", ['HexBinary', '61']), ("xs:base64Binary('YQ==')", ['Base64Binary', 'YQ==']),
    ("xs:dateTime('2000-01-01T00:00:00Z')", ['DateTime10', '2000-01-01T00:00:00Z']), ("xs:date('2000-01-01')", ['Date10', '2000-01-01']),
    ("xs:gYear('2000')", ['GregorianYear10', '2000']), ("xs:time('00:00:00')", ['Time', '00:00:00']),
    ("xs:dateTime('2000-01-01T00:00:00')", ['DateTime10', '2000-01-01T00:00:00']),
    # the same instant in different local years (and in the same local year)
    ("xs:dateTime('2000-01-01T00:00:00+01:00')", ['DateTime10', '2000-01-01T00:00:00+01:00']),
    ("xs:dateTime('1999-12-31T23:00:00Z')", ['DateTime10', '1999-12-31T23:00:00Z']),
    ("xs:dateTime('2000-01-01T01:00:00+01:00')", ['DateTime10', '2000-01-01T01:00:00+01:00']),
]
KEY_GROUPS = {
    'int': [0, 1, 2, 3, 4], 'decimal': [5, 6, 7], 'double': [8, 9, 11, 12, 13], 'nan': [10, 14], 'float': [15],
    'string': [16, 17, 18, 19], 'uri': [20], 'untyped': [21, 22], 'bool': [23, 24], 'other': [25, 26, 27],
    'inexact': [28, 29, 30, 31, 32], 'binary': [33, 34], 'datetime': [35, 36, 37, 38, 39, 26, 40, 41, 42],
}

MAP_OPS = ['map:put', 'map:put', 'map:remove', 'map:merge', 'map:merge', 'map:entry', 'map-ctor', 'map:get',
           'map:contains', 'map:size', 'map:keys', 'map-call', 'map-lookup-all', 'map-lookup', 'map-lookup', 'nest-map-arr']
# operations whose result is not modelled: only the immutability of every pool member is judged after them
UNMODELLED_ARRAY = {
    'u:array-sort': 'array:sort(%s)', 'u:array-sort-key': 'array:sort(%s, (), function($m) { count($m) })',
    'u:array-for-each': 'array:for-each(%s, function($m) { ($m, 1) })',
    'u:array-filter': 'array:filter(%s, function($m) { count($m) > 0 })',
    'u:array-fold-left': 'array:fold-left(%s, (), function($a, $m) { ($a, $m) })',
    'u:array-fold-right': 'array:fold-right(%s, (), function($m, $a) { ($m, $a) })',
    'u:array-for-each-pair': 'array:for-each-pair(%s, %s, function($x, $y) { ($x, $y) })',
    'u:array-members-sorted': 'sort(%s?*)', 'u:array-apply': 'apply(function($x) { $x }, [%s])',
    'u:array-json': "serialize(%s, map{'method': 'json'})", 'u:array-deep-equal': 'deep-equal(%s, %s)',
    'u:array-reverse-members': 'reverse(%s?*)', 'u:array-string-join': "string-join(array:flatten(%s) ! string(.), ',')",
}
UNMODELLED_MAP = {
    'u:map-for-each': 'map:for-each(%s, function($k, $v) { ($k, $v) })', 'u:map-find': 'map:find(%s, 1)',
    'u:map-json': "serialize(%s, map{'method': 'json'})", 'u:map-deep-equal': 'deep-equal(%s, %s)',
    'u:map-merge-combine-self': "map:merge((%s, %s), map{'duplicates': 'combine'})",
    'u:map-values-sorted': 'sort(%s?* ! count(.))', 'u:map-keys-sorted': 'sort(map:keys(%s) ! string(.))',
    'u:map-entries': 'map:keys(%s) ! map:entry(., 1)',
}
ARRAY_OPS = ['sq-ctor', 'curly-ctor', 'array:put', 'array:append', 'array:append', 'array:insert-before',
             'array:remove', 'array:subarray', 'array:head', 'array:tail', 'array:reverse', 'array:join',
             'array:flatten', 'array:get', 'array:size', 'array-call', 'array-lookup-all', 'array-lookup', 'array-lookup',
             'let-alias-append', 'let-alias-put', 'nest-arr-map', 'nest-arr-arr']
WRAPPABLE = ('map:get', 'map:contains', 'map:put', 'map:remove', 'map-call', 'map-lookup', 'array:get', 'array:remove',
             'array-call', 'array-lookup', 'array:put')
_PT1H = "xs:dayTimeDuration('PT1H')"
# fixed expressions with their value: a key that has been a key before, then adjusted to a timezone, is a new key
LAWS = [
    ("let $k := xs:dateTime('2000-01-01T00:00:00'), $m := map{$k: 1}, $k2 := adjust-dateTime-to-timezone($k, %s) return "
     "(map:get(map{$k2: 2}, adjust-dateTime-to-timezone(xs:dateTime('2000-01-01T00:00:00'), %s)), "
     "map:size(map:merge((map{$k2: 1}, map{adjust-dateTime-to-timezone(xs:dateTime('2000-01-01T00:00:00'), %s): 2}))), $m($k), "
     "map:contains(map{$k2: 1}, $k))" % (_PT1H, _PT1H, _PT1H), [['int', '2'], ['int', '1'], ['int', '1'], ['bool', False]]),
    ("let $k := xs:date('2000-01-01'), $m := map{$k: 1}, $k2 := adjust-date-to-timezone($k, %s) return "
     "(map{$k2: 2}(adjust-date-to-timezone(xs:date('2000-01-01'), %s)), map:size(map:put(map{$k2: 1}, "
     "adjust-date-to-timezone(xs:date('2000-01-01'), %s), 3)), $m?*)" % (_PT1H, _PT1H, _PT1H), [['int', '2'], ['int', '1'], ['int', '1']]),
    ("let $k := xs:time('12:00:00'), $m := map{$k: 1}, $k2 := adjust-time-to-timezone($k, %s) return "
     "(map:get(map{$k2: 2}, xs:time('12:00:00+01:00')), map:get($m, xs:time('12:00:00')))" % _PT1H, [['int', '2'], ['int', '1']]),
    ("let $k := xs:dateTime('2000-01-01T00:00:00Z'), $m := map{$k: 1}, $k2 := adjust-dateTime-to-timezone($k, ()) return "
     "(map:get(map{$k2: 2}, xs:dateTime('2000-01-01T00:00:00')), map:get($m, xs:dateTime('2000-01-01T00:00:00Z')), "
     "map:contains($m, $k2))", [['int', '2'], ['int', '1'], ['bool', False]]),
]
LOOP_FORMS = ["for $x in %s return map{'k': $x}?*", "for $x in %s return map{'k': $x}?k", "for $x in %s return map{'k': $x}('k')",
              "for $x in %s return [$x]?*", "for $x in %s return [$x](1)", "for $x in %s return array{$x, 0}?1", "%s ! map{'k': .}?*",
              "%s ! [.]?1", "for $x in %s return map:get(map{'k': $x, 'j': 0}, 'k')", "for $x in %s return array:size([$x, $x])#size",
              "for $x in %s return array:get([0, $x], 2)", "for $x in %s return map{'k': $x, 'j': $x}?j"]
DUPS = ['use-first', 'use-last', 'combine', 'reject', 'use-any', None]


# ---- rendering / model evaluation of argument specs ---------------------------------------------

def render(a):
    if 'p' in a:
        return '$p%d' % a['p']
    if 'lit' in a:
        return ATOMS[a['lit']][0]
    if 'int' in a:
        return str(a['int']) if a['int'] >= 0 else '(%d)' % a['int']
    if 'seq' in a:
        return '(' + ', '.join(render(x) for x in a['seq']) + ')'
    raise ValueError(a)


def mval(a, pool):
    if 'p' in a:
        return pool[a['p'] % len(pool)][1] if pool else ['map', []]
    if 'lit' in a:
        return list(ATOMS[a['lit']][1])
    if 'int' in a:
        return ['int', str(a['int'])]
    if 'seq' in a:
        return M.norm([mval(x, pool) for x in a['seq']])
    raise ValueError(a)


def fix_refs(a, n):
    """Pool references modulo the current pool size (robust to dropped operations)."""
    if 'p' in a:
        return {'p': a['p'] % n} if n else {'seq': []}
    if 'seq' in a:
        return {'seq': [fix_refs(x, n) for x in a['seq']]}
    return a


def expr_and_model(op, pool, template=False):
    """Returns (xpath text, callable computing the model result or raising ModelError).
    template=True renders every argument as a variable $a0, $a1, ... (and the merge policy as $d), so that
    one parsed token can be evaluated again and again under different bindings."""
    n = len(pool)
    args = [fix_refs(a, n) for a in op['args']]
    r = ['$a%d' % i for i in range(len(args))] if template else [render(a) for a in args]
    if op.get('wrap') is not None and op['wrap'] < len(r):
        r[op['wrap']] = '[%s]' % r[op['wrap']]
    v = lambda i: mval(args[i], pool)   # noqa: E731
    name = op['name']
    if name.startswith('u:'):
        tmpl = UNMODELLED_ARRAY.get(name) or UNMODELLED_MAP[name]
        return tmpl % tuple(r[:tmpl.count('%s')]), None
    if name == 'law':
        text, want = LAWS[op['form'] % len(LAWS)]
        return text, lambda: ['exact', want]
    if name == 'key-kept':
        # which of two same-key keys of different numeric types is the key of the result (exact type): the supplied
        # key for map:put, the first for use-first and combine, the last for use-last
        k1, k2 = ATOMS[op['k'][0]], ATOMS[op['k'][1]]
        form = op['form'] % 4
        if form == 0:
            return 'map:keys(map:put(map{%s: 1}, %s, 2))' % (k1[0], k2[0]), lambda: ['exact', list(k2[1])]
        d = ['use-first', 'use-last', 'combine'][form - 1]
        return "map:keys(map:merge((map{%s: 1, 'z': 0}, map{%s: 2}), map{'duplicates': '%s'}))[not(. instance of xs:string)]" % (
            k1[0], k2[0], d), lambda: ['exact', list(k2[1] if d == 'use-last' else k1[1])]
    if name == 'loop-ctor':
        # a constructor with context-dependent entries evaluated again and again (one call site, many values)
        form = LOOP_FORMS[op['form'] % len(LOOP_FORMS)]
        if form.endswith('#size'):
            return form[:-5] % r[0], lambda: M.norm([['int', '2'] for _x in M.as_seq(M.norm(v(0)))])
        return form % r[0], lambda: M.norm(v(0))
    if name == 'map:put':
        return 'map:put(%s, %s, %s)' % (r[0], r[1], r[2]), lambda: M.map_put(v(0), v(1), v(2))
    if name == 'map:remove':
        return 'map:remove(%s, %s)' % (r[0], r[1]), lambda: M.map_remove(v(0), v(1))
    if name == 'map:merge':
        d = op.get('dups')
        if d is None:
            return 'map:merge(%s)' % r[0], lambda: M.map_merge(v(0))
        if template:
            return "map:merge(%s, map{'duplicates': $d})" % r[0], lambda: M.map_merge(v(0), d)
        return "map:merge(%s, map{'duplicates': '%s'})" % (r[0], d), lambda: M.map_merge(v(0), d)
    if name == 'map:entry':
        return 'map:entry(%s, %s)' % (r[0], r[1]), lambda: M.map_entry(v(0), v(1))
    if name == 'map-ctor':
        pairs = [(i, i + 1) for i in range(0, len(args) - 1, 2)]
        text = 'map{' + ', '.join('%s: %s' % (r[i], r[j]) for i, j in pairs) + '}'
        return text, lambda: M.map_new([(v(i), v(j)) for i, j in pairs])
    if name == 'map:get':
        return 'map:get(%s, %s)' % (r[0], r[1]), lambda: M.map_get(v(0), v(1))
    if name == 'map:contains':
        return 'map:contains(%s, %s)' % (r[0], r[1]), lambda: M.map_contains(v(0), v(1))
    if name == 'map:size':
        return 'map:size(%s)' % r[0], lambda: M.map_size(v(0))
    if name == 'map:keys':
        return 'map:keys(%s)' % r[0], lambda: ['keys', M.map_keys(v(0))]
    if name == 'map-call':
        return '%s(%s)' % (r[0], r[1]), lambda: _call(v(0), v(1))
    if name == 'map-lookup-all' or name == 'array-lookup-all':
        return '%s?*' % r[0], lambda: ['bag' if M.norm(v(0))[0:1] == ['map'] else 'seq', M.lookup_all(v(0))]
    if name == 'map-lookup':
        return '%s?(%s)' % (r[0], r[1]), lambda: _lookup(v(0), v(1))
    if name == 'sq-ctor':
        return '[' + ', '.join(r) + ']', lambda: M.array_new([v(i) for i in range(len(args))])
    if name == 'curly-ctor':
        return 'array{' + ', '.join(r) + '}', \
            lambda: M.array_new(M.as_seq(M.norm([v(i) for i in range(len(args))])))
    if name == 'array:put':
        return 'array:put(%s, %s, %s)' % (r[0], r[1], r[2]), lambda: M.array_put(v(0), v(1), v(2))
    if name == 'array:append':
        return 'array:append(%s, %s)' % (r[0], r[1]), lambda: M.array_append(v(0), v(1))
    if name == 'array:insert-before':
        return 'array:insert-before(%s, %s, %s)' % (r[0], r[1], r[2]), \
            lambda: M.array_insert_before(v(0), v(1), v(2))
    if name == 'array:remove':
        return 'array:remove(%s, %s)' % (r[0], r[1]), lambda: M.array_remove(v(0), v(1))
    if name == 'array:subarray':
        if len(args) == 2:
            return 'array:subarray(%s, %s)' % (r[0], r[1]), lambda: M.array_subarray(v(0), v(1))
        return 'array:subarray(%s, %s, %s)' % (r[0], r[1], r[2]), lambda: M.array_subarray(v(0), v(1), v(2))
    if name == 'array:head':
        return 'array:head(%s)' % r[0], lambda: M.array_head(v(0))
    if name == 'array:tail':
        return 'array:tail(%s)' % r[0], lambda: M.array_tail(v(0))
    if name == 'array:reverse':
        return 'array:reverse(%s)' % r[0], lambda: M.array_reverse(v(0))
    if name == 'array:join':
        return 'array:join(%s)' % r[0], lambda: M.array_join(v(0))
    if name == 'array:flatten':
        return 'array:flatten(%s)' % r[0], lambda: M.array_flatten(v(0))
    if name == 'array:get':
        return 'array:get(%s, %s)' % (r[0], r[1]), lambda: M.array_get(v(0), v(1))
    if name == 'array:size':
        return 'array:size(%s)' % r[0], lambda: M.array_size(v(0))
    if name == 'array-call':
        return '%s(%s)' % (r[0], r[1]), lambda: _call(v(0), v(1))
    if name == 'array-lookup':
        return '%s?(%s)' % (r[0], r[1]), lambda: _lookup(v(0), v(1))
    if name == 'nest-arr-map':
        if op.get('form') == 1:
            return "[map{'v': %s}, %s]?1?v" % (r[0], r[1]), lambda: M.norm(v(0))
        if op.get('form') == 2:
            return "[map{'v': %s, 'w': 1}, 2, 'x']?1?v" % r[0], lambda: M.norm(v(0))
        return "([map{'v': %s}]?1?v, %s)" % (r[0], r[1]), lambda: M.norm([v(0), v(1)])
    if name == 'nest-arr-arr':
        return "[[%s], map{'k': %s}]" % (r[0], r[1]), \
            lambda: M.array_new([M.array_new([v(0)]), M.map_new([(['str', 'k'], v(1))])])
    if name == 'nest-map-arr':
        return "map{'k': [%s], 'n': %s}" % (r[0], r[1]), \
            lambda: M.map_new([(['str', 'k'], M.array_new([v(0)])), (['str', 'n'], v(1))])
    if name == 'let-alias-append':
        return 'let $a := %s return (array:append($a, %s), $a)' % (r[0], r[1]), \
            lambda: M.norm([M.array_append(v(0), v(1)), M.require('array', v(0))])
    if name == 'let-alias-put':
        return 'let $a := %s return (array:put($a, %s, %s), array:size($a), $a)' % (r[0], r[1], r[2]), \
            lambda: M.norm([M.array_put(v(0), v(1), v(2)), M.array_size(v(0)), M.require('array', v(0))])
    raise ValueError(name)


def _call(f, arg):
    f = M.norm(f)
    if M.is_item(f) and f[0] == 'map':
        return M.map_get(f, arg)
    if M.is_item(f) and f[0] == 'array':
        return M.array_get(f, arg)
    raise M.ModelError('XPTY0004')


def _lookup(seq, arg):
    out = []
    for it in M.as_seq(M.norm(seq)):
        out.extend(M.as_seq(_call(it, arg)))
    return M.norm(out)


# ---- comparison forms ----------------------------------------------------------------------------

def cmpform(c):
    """Comparison form: map keys by same-key class, singleton sequences collapsed."""
    c = M.norm(c)
    if M.is_item(c):
        if c[0] == 'map':
            ents = [[repr(M.keynorm(k)), cmpform(v)] for k, v in c[1]]
            ents.sort()
            return ['map', ents]
        if c[0] == 'array':
            return ['array', [cmpform(m) for m in c[1]]]
        if c[0] == 'keys':
            return ['keys', sorted(repr(M.keynorm(k)) for k in c[1])]
        if c[0] == 'bag':
            return ['bag', sorted(repr(cmpform(x)) for x in M.as_seq(c[1]))]
        if c[0] == 'seq':
            return cmpform(c[1])
        return c
    return [cmpform(x) for x in c]


# ---- generation -----------------------------------------------------------------------------------

def gen_case(rng, tier):
    thorough = tier == 'thorough'
    groups = sorted(KEY_GROUPS)
    enabled = [g for g in groups if rng.random() < rng.choice([0.35, 0.6, 1.0])] or ['int', 'string']
    atoms = sorted(set(i for g in enabled for i in KEY_GROUPS[g]))
    if rng.random() < 0.15:
        # few keys of one collision family: the same key (by the same-key relation) meets again and again
        atoms = rng.choice([[10, 14, 16], [10, 14], [1, 5, 8, 15], [1, 5, 8, 15, 23], [16, 20, 21], [0, 7, 12, 13, 24], [28, 29, 32], [30, 31, 28], [33, 34, 16], [35, 36, 37, 38, 39, 26], [40, 41, 42, 35]])
        enabled = ['few-keys']
    nops = rng.randint(3, 40 if thorough else 18)
    fail_rate = rng.choice([0.0, 0.1, 0.25])
    mode = rng.choice(['select', 'shared-parser', 'reused-tokens', 'reused-tokens'])
    pool = []       # (kind, model value)
    ops = []

    def pick(kind):
        idx = [i for i, (k, _) in enumerate(pool) if k == kind]
        if idx and rng.random() < 0.9:
            return {'p': rng.choice(idx)}
        if pool and rng.random() < 0.3:
            return {'p': rng.randrange(len(pool))}
        return None

    def atom():
        return {'lit': rng.choice(atoms)}

    def value(depth=0):
        x = rng.random()
        if pool and x < 0.3:
            return {'p': rng.randrange(len(pool))}
        if x < 0.45:
            return {'seq': []}
        if x < 0.65 and depth < 2:
            return {'seq': [value(depth + 1) for _ in range(rng.choice([2, 2, 3]))]}
        return atom()

    def index_for(arg, extra=0):
        size = 0
        if arg is not None and 'p' in arg:
            mv = pool[arg['p']][1]
            if M.is_item(mv) and mv[0] == 'array':
                size = len(mv[1])
        if rng.random() < fail_rate:
            return {'int': rng.choice([0, -1, size + 1 + extra, size + 2 + extra])}
        if size + extra <= 0:
            return {'int': 1}
        return {'int': rng.randint(1, size + extra)}

    for _ in range(nops):
        want_map = rng.random() < 0.5
        name = rng.choice(MAP_OPS if want_map else ARRAY_OPS)
        if rng.random() < 0.04:
            # an array / a map built through the Python API from caller-owned containers that are modified afterwards
            ops.append({'name': 'py-ctor', 'kind': 'array' if rng.random() < 0.6 else 'map',
                        'args': [atom() for _i in range(rng.choice([1, 2, 3]))]})
            continue
        if rng.random() < 0.02:
            ops.append({'name': 'law', 'form': rng.randrange(len(LAWS)), 'args': []})
            continue
        if rng.random() < 0.03:
            fam = rng.choice([[1, 5, 8], [0, 7, 13], [6, 9]])
            ops.append({'name': 'key-kept', 'form': rng.randrange(4), 'k': [rng.choice(fam), rng.choice(fam)], 'args': []})
            continue
        if rng.random() < 0.05:
            ops.append({'name': 'loop-ctor', 'form': rng.randrange(len(LOOP_FORMS)),
                        'args': [{'seq': [atom() for _i in range(rng.choice([2, 3, 4]))]}]})
            continue
        if rng.random() < 0.12 and mode != 'reused-tokens':
            kind = 'map' if want_map else 'array'
            x1, x2 = pick(kind), pick(kind)
            if x1 is not None:
                ops.append({'name': rng.choice(sorted(UNMODELLED_MAP if want_map else UNMODELLED_ARRAY)), 'args': [x1, x2 or x1]})
                continue
        op = {'name': name}
        if name.startswith('nest-'):
            pass
        elif name.startswith('map') and name not in ('map:entry', 'map-ctor'):
            m = pick('map')
            if m is None:
                name = op['name'] = 'map-ctor'
        if name.startswith('nest-'):
            pass
        elif (name.startswith('array') or name.startswith('let-')) and name not in ():
            a = pick('array')
            if a is None:
                name = op['name'] = 'sq-ctor'
        if name in ('map:put',):
            op['args'] = [m, atom(), value()]
        elif name in ('map:remove',):
            op['args'] = [m, atom() if rng.random() < 0.7 else {'seq': [atom(), atom()]}]
        elif name == 'map:merge':
            others = [pick('map') or m for _ in range(rng.choice([1, 1, 2, 3]))]
            op['args'] = [{'seq': [m] + others}]
            op['dups'] = rng.choice(DUPS)
        elif name == 'map:entry':
            op['args'] = [atom(), value()]
        elif name == 'map-ctor':
            k = rng.choice([0, 1, 2, 3, 4])
            op['args'] = []
            for _i in range(k):
                op['args'] += [atom(), value()]
        elif name in ('nest-arr-map', 'nest-arr-arr', 'nest-map-arr'):
            op['args'] = [value(), value()]
            op['form'] = rng.choice([0, 0, 1, 2])
        elif name == 'map-lookup' and rng.random() < 0.5:
            # the lookup operator maps over every item of its left operand
            op['args'] = [{'seq': [m] + [pick('map') or m for _i in range(rng.choice([1, 2]))]}, atom()]
        elif name in ('map:get', 'map:contains', 'map-call', 'map-lookup'):
            op['args'] = [m, atom()]
        elif name in ('map:size', 'map:keys', 'map-lookup-all'):
            op['args'] = [m]
        elif name == 'sq-ctor':
            op['args'] = [value() for _i in range(rng.choice([0, 1, 2, 3, 4]))]
        elif name == 'curly-ctor':
            op['args'] = [value() for _i in range(rng.choice([0, 1, 2, 3]))]
        elif name in ('array:put', 'let-alias-put'):
            op['args'] = [a, index_for(a), value()]
        elif name in ('array:append', 'let-alias-append'):
            op['args'] = [a, value()]
        elif name == 'array:insert-before':
            op['args'] = [a, index_for(a, 1), value()]
        elif name == 'array:remove':
            op['args'] = [a, index_for(a) if rng.random() < 0.7 else {'seq': [index_for(a), index_for(a)]}]
        elif name == 'array:subarray':
            s = index_for(a, 1)
            if rng.random() < 0.5:
                op['args'] = [a, s]
            else:
                op['args'] = [a, s, {'int': rng.choice([0, 1, 2, -1]) if rng.random() < 0.5 else 0}]
        elif name in ('array:head', 'array:tail', 'array:reverse', 'array:size', 'array-lookup-all'):
            op['args'] = [a]
        elif name == 'array:join':
            op['args'] = [{'seq': [a] + [pick('array') or a for _i in range(rng.choice([0, 1, 2]))]}]
        elif name == 'array:flatten':
            op['args'] = [{'seq': [a, value()]}]
        elif name == 'array-lookup' and rng.random() < 0.5:
            op['args'] = [{'seq': [a] + [pick('array') or a for _i in range(rng.choice([1, 2]))]}, {'int': 1}]
        elif name in ('array:get', 'array-call', 'array-lookup'):
            op['args'] = [a, index_for(a)]
        else:
            raise ValueError(name)
        if name in WRAPPABLE and rng.random() < 0.12:
            op['wrap'] = 1      # the key / position is given as a one-member array (atomized by the conversion rules)
        ops.append(op)
        try:
            _, model = expr_and_model(op, pool)
            res = M.norm(model())
        except M.ModelError:
            continue
        for it in M.as_seq(res):
            if M.is_item(it) and it[0] in ('map', 'array') and len(pool) < 10 and depth_of(it) <= 9:
                pool.append((it[0], it))
    return {'config': {'mode': mode, 'groups': enabled}, 'ops': ops}


# ---- execution ---------------------------------------------------------------------------------------

def run_case(case, world):
    import elementpath
    from elementpath.xpath31 import XPath31Parser
    from elementpath.xpath_tokens import XPathMap, XPathArray
    mode = case['config'].get('mode', 'select')
    shared = XPath31Parser() if mode == 'shared-parser' else None
    violations = []
    stats = {'ops': 0, 'failing_ops': 0, 'pool_reobservations': 0, 'public_observations': 0}
    shape = []
    pool = []      # (kind, model, engine object)
    observers = {}
    token_cache = {}
    lit_cache = {}

    def arg_value(a, pool_):
        """Python value of an argument spec (pool members are the very same objects)."""
        if 'p' in a:
            return pool_[a['p'] % len(pool_)][2] if pool_ else []
        if 'seq' in a:
            out = []
            for x in a['seq']:
                v_ = arg_value(x, pool_)
                if isinstance(v_, list):
                    out.extend(v_)
                else:
                    out.append(v_)
            return out
        text_ = render(a)
        if text_ not in lit_cache:
            lit_cache[text_] = XPath31Parser().parse(text_).evaluate(elementpath.XPathContext(None, item=1))
        return lit_cache[text_]

    class _Obs:
        # token.evaluate(context) keeps arrays as values; select() flattens arrays in its results by design
        def __init__(self, text):
            self.token = XPath31Parser().parse(text)

        def select(self, root, item=None, variables=None):
            return self.token.evaluate(elementpath.XPathContext(root, item=item, variables=variables))

    def sel(text):
        s = observers.get(text)
        if s is None:
            s = observers[text] = _Obs(text)
        return s

    def observe_public(v, depth=0):
        try:
            return _observe_public(v, depth)
        except Exception as e:
            return ['obs', 'observer-raised:' + type(e).__name__]

    def _observe_public(v, depth=0):
        """Observe a value only through map:size/keys/get/contains and array:size/get."""
        stats['public_observations'] += 1
        if depth > 10:
            return ['deep']
        if isinstance(v, XPathMap):
            keys = sel('map:keys($v)').select(None, item=1, variables={'v': v})
            keys = keys if isinstance(keys, list) else [keys]
            size = sel('map:size($v)').select(None, item=1, variables={'v': v})
            ents = []
            for k in keys:
                val = sel('map:get($v, $k)').select(None, item=1, variables={'v': v, 'k': k})
                has = sel('map:contains($v, $k)').select(None, item=1, variables={'v': v, 'k': k})
                if has is not True:
                    ents.append([['obs', 'contains-false-for-own-key'], canon(k)])
                ents.append([canon(k), observe_public(val, depth + 1)])
            if size != len(keys):
                ents.append([['obs', 'size'], ['int', str(size)]])
            return ['map', ents]
        if isinstance(v, XPathArray):
            size = sel('array:size($v)').select(None, item=1, variables={'v': v})
            mem = []
            for i in range(1, size + 1):
                mem.append(observe_public(sel('array:get($v, $i)').select(None, item=1, variables={'v': v, 'i': i}),
                                          depth + 1))
            return ['array', mem]
        if isinstance(v, list):
            return [observe_public(x, depth + 1) for x in v]
        return canon(v)

    def violate(cls, signature, detail, features=()):
        violations.append({'cls': cls, 'signature': signature, 'detail': detail, 'features': sorted(set(features))})

    def explained_by_bool_num(model, observed_form, err_code):
        """Is the engine's outcome exactly what the model gives if booleans and numbers were one key space?"""
        M.BOOL_AS_NUM[0] = True
        try:
            try:
                alt = ['ok', M.norm(model())]
            except M.ModelError as e:
                alt = ['error', e.code]
            if err_code is not None:
                return alt[0] == 'error'
            if alt[0] != 'ok':
                return False
            tag = alt[1][0] if M.is_item(alt[1]) else None
            a = alt[1][1] if tag == 'seq' else alt[1]
            return cmpform(observed_form) == cmpform(a)
        except Exception:
            return False
        finally:
            M.BOOL_AS_NUM[0] = False

    def feats_of(op, pool_models):
        f = set()
        for a in op['args']:
            for atom in _atoms_in(a):
                f.add('key:' + M.key_classes(ATOMS[atom][1]))
        return f

    for idx, op in enumerate(case['ops']):
        stats['ops'] += 1
        models = [(k, m) for k, m, _ in pool]
        if op['name'] == 'py-ctor':
            vals = [arg_value(a, pool) for a in op['args']]
            try:
                if op['kind'] == 'array':
                    owned = list(vals)
                    obj = XPathArray(XPath31Parser(), owned)
                    snap = canon(obj)
                    owned.append(vals[0])
                    owned[0] = 'changed-by-caller'
                else:
                    owned = {'k%d' % i: v for i, v in enumerate(vals)}
                    obj = XPathMap(XPath31Parser(), owned)
                    snap = canon(obj)
                    owned['later'] = vals[0]
                    owned['k0'] = 'changed-by-caller'
                if canon(obj) != snap:
                    violate('MUTATED', 'mutated:python-container-adopted:%s' % op['kind'],
                            'an %s built from a Python container changes when the caller modifies that container afterwards: '
                            '%r -> %r' % (op['kind'], snap, canon(obj)), {'op:py-ctor'})
                elif len(pool) < 10:
                    pool.append((op['kind'], M.norm(snap), obj))
            except Exception as e:
                world.event(('py-ctor-error', idx, canon_exc(e)))
            continue
        try:
            text, model = expr_and_model(op, models)
        except Exception:
            continue
        variables = {'p%d' % i: obj for i, (_, _, obj) in enumerate(pool)}
        before = [canon(obj) for _, _, obj in pool]
        feats = feats_of(op, models)
        feats.add('op:' + op['name'])
        for _, m in models:
            for k, _v in (m[1] if m[0] == 'map' else []):
                feats.add('mapkey:' + M.key_classes(k))
        try:
            expected = ['unjudged'] if model is None else ['ok', M.norm(model())]
        except M.ModelError as e:
            expected = ['error', e.code]
            stats['failing_ops'] += 1
        world.event(('op', idx, text))
        try:
            if mode == 'reused-tokens':
                # the same parsed token (call site) is evaluated many times under different bindings
                ttext, _ = expr_and_model(op, models, template=True)
                token = token_cache.get(ttext)
                if token is None:
                    token = token_cache[ttext] = XPath31Parser().parse(ttext)
                else:
                    feats.add('token-reused')
                n_ = len(models)
                for ai, a in enumerate(op['args']):
                    variables['a%d' % ai] = arg_value(fix_refs(a, n_), pool)
                if op.get('dups') is not None:
                    variables['d'] = op['dups']
                text = ttext + ' with ' + ', '.join('$a%d := %s' % (ai, render(fix_refs(a, n_))) for ai, a in enumerate(op['args']))
                if op.get('dups') is not None:
                    text += ", $d := '%s'" % op['dups']
            else:
                parser = shared if shared is not None else XPath31Parser()
                token = parser.parse(text)
            got = token.evaluate(elementpath.XPathContext(None, item=1, variables=variables))
            outcome = ['ok', got]
        except Exception as e:
            outcome = ['error', e]
        shape.append(op['name'] + ('!' if expected[0] == 'error' else ''))

        # (1) immutability: every pool member observed again, must be what it was
        stats['pool_reobservations'] += len(pool)
        for i, (_, _, obj) in enumerate(pool):
            now = canon(obj)
            if now != before[i]:
                operand = any(('p' in a and a['p'] % len(pool) == i) for a in _flat_args(op))
                violate('MUTATED', 'mutated:%s' % op['name'],
                        '%s changed pool member $p%d from %r to %r' % (text, i, before[i], now),
                        feats | {'operand' if operand else 'non-operand'})
                # resync the model of that member so the history can go on
                pool[i] = (pool[i][0], M.norm(now), obj)

        # (2) result vs model
        if expected[0] == 'unjudged':
            world.probe('unmodelled-operation-judged-for-immutability-only')
            continue
        if outcome[0] == 'error':
            err = outcome[1]
            world.event(('error', idx, canon_exc(err)))
            if expected[0] == 'ok':
                if is_ep_error(err):
                    if explained_by_bool_num(model, None, canon_exc(err)[2]):
                        feats.add('explained-by-bool-num-key-collision')
                    violate('MODEL_MISMATCH', 'unexpected-error:%s' % op['name'],
                            '%s raised %r, model gives %r' % (text, canon_exc(err), expected[1]), feats)
                else:
                    # the operation has a value in the model: no value at all is a mismatch whatever is raised
                    violate('MODEL_MISMATCH', 'unexpected-error:%s' % op['name'],
                            '%s raised %r, model gives %r' % (text, canon_exc(err), expected[1]), feats | {'non-ep-exception'})
            else:
                code = canon_exc(err)[2] if is_ep_error(err) else None
                if expected[1] == 'FOAY0001' and code != 'FOAY0001' and is_ep_error(err):
                    violate('MODEL_MISMATCH', 'wrong-code:%s' % op['name'],
                            '%s raised %s, FOAY0001 expected' % (text, code), feats)
            continue
        got = outcome[1]
        if expected[0] == 'ok' and depth_of(expected[1]) > 9:
            world.probe('deep-result-not-compared')
            continue
        observed = observe_public(got)
        world.event(('result', idx, observed))
        if expected[0] == 'error':
            if explained_by_bool_num(model, observed, None):
                feats.add('explained-by-bool-num-key-collision')
            violate('MODEL_MISMATCH', 'missing-error:%s' % op['name'],
                    '%s returned %r, model raises %s' % (text, observed, expected[1]), feats)
        else:
            tag = expected[1][0] if M.is_item(expected[1]) else None
            if tag == 'exact':
                if canon(got) != expected[1][1] and canon(got) != [expected[1][1]]:
                    violate('MODEL_MISMATCH', 'key-kept:%s' % op['name'],
                            '%s gave the key %r, the key of the result is %r' % (text, canon(got), expected[1][1]), feats)
                continue
            if tag in ('keys', 'bag'):
                observed = [tag, M.as_seq(M.norm(observed))]
            elif tag == 'seq':
                expected = ['ok', expected[1][1]]
            ok = cmpform(observed) == cmpform(expected[1])
            if not ok and op['name'] == 'map:merge' and op.get('dups') == 'use-any':
                alt = M.norm(M.map_merge(mval(fix_refs(op['args'][0], len(models)), models), 'use-last'))
                ok = cmpform(observed) == cmpform(alt)
            if not ok and explained_by_bool_num(model, observed, None):
                feats.add('explained-by-bool-num-key-collision')
            if not ok:
                violate('MODEL_MISMATCH', 'result:%s' % op['name'],
                        '%s gave %r, model gives %r' % (text, cmpform(observed), cmpform(expected[1])), feats)
            direct = canon(got)
            if tag in ('keys', 'bag'):
                direct = [tag, M.as_seq(M.norm(direct))]
            if cmpform(direct) != cmpform(_strip_obs(observed)):
                violate('MODEL_MISMATCH', 'observer-disagreement:%s' % op['name'],
                        'public functions observe %r but the value is %r' % (cmpform(observed), cmpform(direct)), feats)
        # (3) results go back into the pool (the very same objects)
        items = got if isinstance(got, list) else [got]
        exp_items = M.as_seq(expected[1]) if expected[0] == 'ok' else []
        for j, it in enumerate(items):
            if isinstance(it, (XPathMap, XPathArray)) and len(pool) < 10:
                kind = 'map' if isinstance(it, XPathMap) else 'array'
                if j < len(exp_items) and M.is_item(exp_items[j]) and exp_items[j][0] == kind \
                        and cmpform(canon(it)) == cmpform(exp_items[j]):
                    pool.append((kind, exp_items[j], it))
                else:
                    pool.append((kind, M.norm(canon(it)), it))

    nontrivial = []
    if len(pool) >= 2 and stats['ops'] >= 3:
        nontrivial = [hashlib.sha256('|'.join(shape).encode()).hexdigest()[:16]]
    return {'violations': violations, 'stats': stats, 'nontrivial': nontrivial}


def _strip_obs(c):
    return c


def depth_of(c, d=0):
    if d > 20 or not isinstance(c, list):
        return d
    return max([d] + [depth_of(x, d + 1) for x in c])


def _flat_args(op):
    out = []

    def walk(a):
        out.append(a)
        for x in a.get('seq', ()):
            walk(x)
    for a in op['args']:
        walk(a)
    return out


def _atoms_in(a):
    if 'lit' in a:
        yield a['lit']
    for x in a.get('seq', ()):
        for y in _atoms_in(x):
            yield y


def simplify(case):
    """Shrink arguments: replace sequences by their elements, literals by 1 / 'a'."""
    for i, op in enumerate(case['ops']):
        for j, a in enumerate(op['args']):
            if 'seq' in a and a['seq']:
                for sub in a['seq'][:2]:
                    ops = list(case['ops'])
                    args = list(op['args'])
                    args[j] = sub
                    ops[i] = dict(op, args=args)
                    yield dict(case, ops=ops)
            if 'lit' in a and a['lit'] not in (1, 16):
                for rep in (1, 16):
                    ops = list(case['ops'])
                    args = list(op['args'])
                    args[j] = {'lit': rep}
                    ops[i] = dict(op, args=args)
                    yield dict(case, ops=ops)
    if case['config'].get('mode') != 'select':
        yield dict(case, config=dict(case['config'], mode='select'))
