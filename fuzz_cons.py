import random, signal, traceback, sys
import xml.etree.ElementTree as ET
import elementpath
from elementpath import XPathContext, ElementPathError, XPath2Parser
from elementpath.xpath31 import XPath31Parser
rnd = random.Random(int(sys.argv[1])); N = int(sys.argv[2])
doc = ET.XML('<r/>')
class TO(Exception): pass
def h(*a): raise TO()
signal.signal(signal.SIGALRM, h)
TYPES = ["integer", "decimal", "double", "float", "string", "boolean", "date", "dateTime", "time", "duration", "dayTimeDuration", "yearMonthDuration", "gYear", "gYearMonth", "gMonth", "gMonthDay", "gDay", "hexBinary", "base64Binary", "anyURI", "QName", "untypedAtomic", "long", "int", "short", "byte", "unsignedLong", "unsignedInt", "unsignedShort", "unsignedByte", "nonNegativeInteger", "negativeInteger", "positiveInteger", "nonPositiveInteger", "normalizedString", "token", "language", "NMTOKEN", "Name", "NCName", "ID", "IDREF", "ENTITY", "NMTOKENS", "IDREFS", "ENTITIES", "dateTimeStamp", "error", "numeric"]
CH = list("0123456789") * 3 + list("+-.eE:TZPYMDHS INFNa_xX/=") + ['٣', '²', '\0', '\ud800', '\t', '\n', ' ', 'é', '--', '---', '9'*20, '9'*400, '0'*50, '24:00:00', '2000-01-01', 'T00:00:00', '+14:00', '-14:01', 'P1Y', 'PT', '1e', 'true', '0x', 'AAAA', '====', 'xs:', 'p:', '%', '#', '[', ']', '{', '}', "''", '\\', '\U0001F600']
seen = {}
for i in range(N):
    P, ver = rnd.choice(((XPath2Parser, '2.0'), (XPath31Parser, '3.1')))
    t = rnd.choice(TYPES)
    s = ''.join(rnd.choice(CH) for _ in range(rnd.choice((1, 2, 3, 4, 6, 8, 12, 20)))).replace("'", "''")
    k = rnd.random()
    if k < 0.5: e = f"xs:{t}('{s}')"
    elif k < 0.65: e = f"'{s}' cast as xs:{t}"
    elif k < 0.75: e = f"'{s}' castable as xs:{t}"
    elif k < 0.85: e = f"xs:untypedAtomic('{s}') cast as xs:{t}?"
    else:
        t2 = rnd.choice(TYPES)
        e = f"xs:{t2}(xs:{t}('{s}'))"
    signal.alarm(8)
    try:
        try:
            tok = P(xsd_version=rnd.choice(('1.0', '1.1'))).parse(e)
            r = tok.get_results(XPathContext(doc))
            # second stage: use the value
            if rnd.random() < 0.5 and r not in ([], None):
                for e2 in (f"string({e})", f"{e} = {e}", f"{e} eq {e}", f"{e} lt {e}", f"{e} + {e}", f"{e} - {e}", f"{e} * 2", f"{e} div 2", f"-{e}", f"max(({e}, {e}))", f"sum(({e}, {e}))", f"avg(({e}, {e}))", f"distinct-values(({e}, {e}))", f"data({e}) instance of xs:{t}", f"xs:string({e}) cast as xs:{t}"):
                    try:
                        P().parse(e2).get_results(XPathContext(doc))
                    except ElementPathError:
                        pass
                    except TO: raise
                    except BaseException as ex:
                        tb = traceback.extract_tb(ex.__traceback__)
                        last = ([x for x in tb if '/elementpath/' in x.filename] or tb)[-1]
                        key = (type(ex).__name__, last.filename.split('/')[-1], last.lineno)
                        if key not in seen:
                            seen[key] = e2; print('FOUND', key, ver, repr(e2), repr(ex)[:150], flush=True)
        except ElementPathError:
            pass
        except TO:
            if ('TO',) not in seen:
                seen[('TO',)] = e; print('FOUND TO', ver, repr(e), flush=True)
        except BaseException as ex:
            tb = traceback.extract_tb(ex.__traceback__)
            last = ([x for x in tb if '/elementpath/' in x.filename] or tb)[-1]
            key = (type(ex).__name__, last.filename.split('/')[-1], last.lineno)
            if key not in seen:
                seen[key] = e; print('FOUND', key, ver, repr(e), repr(ex)[:150], flush=True)
    finally:
        signal.alarm(0)
print('done', len(seen))
