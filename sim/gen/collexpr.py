"""Grammar over every collation-taking construct of elementpath (XPath 2.0 - 3.1)."""

UCA = 'http://www.w3.org/2013/collation/UCA'
CODEPOINT = 'http://www.w3.org/2005/xpath-functions/collation/codepoint'
HTML_CI = 'http://www.w3.org/2005/xpath-functions/collation/html-ascii-case-insensitive'
CASEBLIND = 'http://www.w3.org/2010/09/qt-fots-catalog/collation/caseblind'

STRINGS = ['a', 'B', 'ab', 'Ab', 'AB', 'b', 'ß', 'ss', 'è', 'e', 'I', 'ı', 'i', '', 'a b', 'ä', 'ae', 'z', 'Z']


def lit(s):
    return "'" + s.replace("'", "''") + "'"


def collation_args(installed):
    """(text, kind) pairs; kind in builtin|uca|locale-installed|locale-missing|malformed|empty|wrongtype"""
    out = [
        (lit(CODEPOINT), 'builtin'), (lit(HTML_CI), 'builtin'), (lit(CASEBLIND), 'builtin'),
        (lit(UCA), 'uca'), (lit(UCA + '?lang=it_IT'), 'uca'), (lit(UCA + '?lang=de_DE;fallback=no'), 'uca'),
        (lit(UCA + '?lang=xx_XX;fallback=yes'), 'uca'), (lit(UCA + '?lang=xx_XX;fallback=no'), 'uca'),
        (lit(UCA + '?lang=it-IT'), 'uca'), (lit(UCA + '?fallback=no'), 'uca'),
        (lit(UCA + '?lang=tr_TR.UTF-8;strength=primary'), 'uca'),
        (lit(UCA + '?lang=en_US;fallback=no'), 'uca'),
        (lit('C'), 'locale-installed'), (lit('C.UTF-8'), 'locale-installed'), (lit('POSIX'), 'locale-installed'),
        (lit('xx_XX.UTF-8'), 'locale-missing'), (lit('it_IT'), 'locale-missing'),
        (lit(''), 'malformed'), (lit('no such'), 'malformed'), (lit('%%'), 'malformed'),
        (lit('http://[bad'), 'malformed'), (lit('collation/x'), 'malformed'),
        ('()', 'empty'), ('1', 'wrongtype'), ("('C','C')", 'wrongtype'),
        (lit('it_IT.UTF-8\x00'), 'malformed'), (lit(UCA + '?lang=en\x00US'), 'malformed'),
        (lit(UCA + '?lang=\x00;fallback=no'), 'malformed'), (lit('C\x00'), 'malformed'),
    ]
    for name in ['en_US.UTF-8', 'it_IT.UTF-8', 'de_DE.UTF-8', 'tr_TR.UTF-8', 'fr_FR.UTF-8',
                 'sr_RS.UTF-8@latin', 'it_IT.ISO8859-1', 'ja_JP.UTF-8', 'it_IT.utf8']:
        out.append((lit(name), 'locale-installed' if name in installed else 'locale-missing'))
    return out


class CollGen:
    def __init__(self, rng, version, installed, lock_bias=0.6):
        self.rng = rng
        self.version = version
        self.args = collation_args(installed)
        self.locking = [a for a in self.args if a[1] in ('uca', 'locale-installed')] + \
            [a for a in self.args if '\x00' in a[0]][:2]
        self.lock_bias = lock_bias
        self.kinds = set()
        self.fns = set()

    def coll(self):
        r = self.rng
        if r.random() < self.lock_bias:
            text, kind = r.choice(self.locking)
        else:
            text, kind = r.choice(self.args)
        self.kinds.add(kind)
        return text

    def s_lit(self):
        return lit(self.rng.choice(STRINGS))

    def seq_lit(self):
        r = self.rng
        n = r.choice([0, 1, 2, 3, 3, 4])
        return '(' + ', '.join(lit(r.choice(STRINGS)) for _ in range(n)) + ')'

    def string(self, d):
        r = self.rng
        if d <= 0 or r.random() < 0.55:
            return self.s_lit()
        k = r.randrange(5)
        if k == 0:
            self.fns.add('substring-before')
            return 'substring-before(%s, %s, %s)' % (self.string(d - 1), self.s_lit(), self.coll())
        if k == 1:
            self.fns.add('substring-after')
            return 'substring-after(%s, %s, %s)' % (self.string(d - 1), self.s_lit(), self.coll())
        if k == 2:
            return 'string(%s)' % self.scalar(d - 1)
        if k == 3:
            return 'string-join(%s, %s)' % (self.seq(d - 1), lit(''))
        return 'concat(%s, %s)' % (self.string(d - 1), self.s_lit())

    def seq(self, d):
        r = self.rng
        if d <= 0 or r.random() < 0.4:
            return self.seq_lit()
        k = r.randrange(8)
        if k == 0:
            self.fns.add('distinct-values')
            return 'distinct-values(%s, %s)' % (self.seq(d - 1), self.coll())
        if k == 1:
            self.fns.add('distinct-values')
            return 'distinct-values(%s)' % self.seq(d - 1)
        if k == 2:
            return 'for $x in %s return %s' % (self.seq(d - 1), self.string_of_x(d - 1))
        if k == 3 and self.version >= '3.0':
            return '(%s ! %s)' % (self.seq(d - 1), self.string_of_dot(d - 1))
        if k == 4 and self.version >= '3.1':
            self.fns.add('sort')
            return 'sort(%s, %s)' % (self.seq(d - 1), self.coll())
        if k == 5 and self.version >= '3.0':
            return 'for-each(%s, function($x) { %s })' % (self.seq(d - 1), self.string_of_x(d - 1))
        if k == 6 and self.version >= '3.0':
            return 'filter(%s, function($x) { %s })' % (self.seq(d - 1), self.bool_of_x(d - 1))
        if k == 7:
            return '(%s, %s)' % (self.string(d - 1), self.seq(d - 1))
        return self.seq_lit()

    def string_of_x(self, d):
        r = self.rng
        k = r.randrange(4)
        if k == 0:
            return '$x'
        if k == 1:
            self.fns.add('substring-before')
            return 'substring-before($x, %s, %s)' % (self.s_lit(), self.coll())
        if k == 2:
            self.fns.add('compare')
            return 'string(compare($x, %s, %s))' % (self.string(d), self.coll())
        return 'concat($x, %s)' % self.string(d)

    def string_of_dot(self, d):
        return self.string_of_x(d).replace('$x', '.')

    def bool_of_x(self, d):
        r = self.rng
        k = r.randrange(3)
        if k == 0:
            self.fns.add('contains')
            return 'contains($x, %s, %s)' % (self.s_lit(), self.coll())
        if k == 1:
            self.fns.add('compare')
            return 'compare($x, %s, %s) = 0' % (self.string(d), self.coll())
        self.fns.add('starts-with')
        return 'starts-with($x, %s, %s)' % (self.s_lit(), self.coll())

    def scalar(self, d):
        """An expression using a collation function, any result type."""
        r = self.rng
        k = r.randrange(16)
        if k == 0:
            self.fns.add('compare')
            return 'compare(%s, %s, %s)' % (self.string(d), self.string(d), self.coll())
        if k == 1:
            fn = r.choice(['contains', 'starts-with', 'ends-with'])
            self.fns.add(fn)
            return '%s(%s, %s, %s)' % (fn, self.string(d), self.string(d), self.coll())
        if k == 2:
            fn = r.choice(['substring-before', 'substring-after'])
            self.fns.add(fn)
            return '%s(%s, %s, %s)' % (fn, self.string(d), self.string(d), self.coll())
        if k == 3:
            self.fns.add('index-of')
            return 'index-of(%s, %s, %s)' % (self.seq(d), self.string(d), self.coll())
        if k == 4:
            self.fns.add('distinct-values')
            return 'distinct-values(%s, %s)' % (self.seq(d), self.coll())
        if k == 5:
            self.fns.add('deep-equal')
            a = self.seq(d) if r.random() < 0.6 else self.scalar(d - 1) if d > 0 else self.seq_lit()
            b = self.seq(d) if r.random() < 0.6 else self.scalar(d - 1) if d > 0 else self.seq_lit()
            return 'deep-equal(%s, %s, %s)' % (a, b, self.coll())
        if k == 6:
            fn = r.choice(['min', 'max'])
            self.fns.add(fn)
            return '%s(%s, %s)' % (fn, self.seq(d), self.coll())
        if k == 7 and self.version >= '3.1':
            self.fns.add('contains-token')
            return 'contains-token(%s, %s, %s)' % (self.seq(d), self.string(d), self.coll())
        if k == 8 and self.version >= '3.1':
            self.fns.add('sort')
            if r.random() < 0.5:
                return 'sort(%s, %s)' % (self.seq(d), self.coll())
            return 'sort(%s, %s, function($x) { %s })' % (self.seq(d), self.coll(), self.string_of_x(d - 1))
        if k == 9 and self.version >= '3.1':
            self.fns.add('collation-key')
            return 'collation-key(%s, %s)' % (self.string(d), self.coll())
        if k == 10:
            return 'for $x in %s return %s' % (self.seq(d), self.bool_of_x(d - 1))
        if k == 11:
            return 'some $x in %s satisfies %s' % (self.seq(d), self.bool_of_x(d - 1))
        if k == 12 and d > 0:
            return '(%s, %s)' % (self.scalar(d - 1), self.scalar(d - 1))
        if k == 13 and d > 0:
            # fails after partial progress
            return '(%s, %s)' % (self.scalar(d - 1), r.choice(['error()', '1 idiv 0', "xs:integer('x')"]))
        if k == 14 and d > 0:
            return 'if (%s) then %s else %s' % (self.bool_expr(d - 1), self.scalar(d - 1), self.s_lit())
        if k == 15 and self.version >= '3.1':
            self.fns.add('array:sort')
            return 'array:sort([%s], %s)' % (', '.join(lit(r.choice(STRINGS)) for _ in range(3)), self.coll())
        self.fns.add('compare')
        return 'compare(%s, %s, %s)' % (self.string(d), self.string(d), self.coll())

    def bool_expr(self, d):
        r = self.rng
        fn = r.choice(['contains', 'starts-with', 'ends-with'])
        self.fns.add(fn)
        return '%s(%s, %s, %s)' % (fn, self.string(d), self.string(d), self.coll())

    def expr(self, depth=None):
        if depth is None:
            depth = self.rng.choice([0, 1, 1, 2, 2, 3])
        return self.scalar(depth)
