"""
C03: parse/evaluate fail only with ElementPathError; parsers stay reusable; nothing hangs.

(i)   parser-instance histories: parse calls (valid, mutated, random, deep) on pooled parser
      instances, with asynchronous crashes injected at the k-th line event of a parse; after
      every operation a probe set is parsed by the used instance, by a fresh instance of the
      same class/configuration, and compared with pristine-process references;
(ii)  every exception leaving parse / select / iter_select / evaluate that is not an
      ElementPathError is a violation; step-budget overrun = HANG, blocked lock = DEADLOCK;
(iii) fault arms: SimFS/SimNet faults under json-doc / unparsed-text*, SimLocale faults under
      collation functions, reduced recursion limit with deep inputs.
"""
import re
import sys
import hashlib

from ..world import SimDeadlock, SimHang, SimCrash, FAULT_KINDS
from ..gen import xmldoc as X
from ..gen.collexpr import CollGen
from ..gen.funcs import FUNCTIONS
from ..refmodel import minilang as ML
from ..canon import canon, canon_exc, is_ep_error, innermost_ep_frame
from .. import runner

NAME = 'c03'

OPERATOR_EXPRS = [
    '1 + 2 * 3', '-1', '1 - -1', 'abs(-1)', '1 to 3', '(1, 2) = (2, 3)', '1 eq 1', '"a" || "b"', '1 => abs()',
    '(1, 2) ! (. + 1)', 'map{"a": 1}?a', '[1, 2]?1', '[1, 2](2)', '1 instance of xs:integer', '"1" cast as xs:integer',
    '"x" castable as xs:integer', '(1) treat as xs:integer', 'a/b | c', 'a union b', 'a intersect b', 'a except b',
    'if (1) then 2 else 3', 'for $x in (1, 2) return $x', 'some $x in (1, 2) satisfies $x = 1',
    'let $f := function($x) { $x } return $f(1)', 'xs:integer("1")', '/a/b[1]', '//a[@x = "1"]/..', 'child::a/@b',
    '1 div 2', '7 idiv 2', '7 mod 2', 'not(1 = 2) and true() or false()', '$v', '(: c :) 1', '1 (: c :) + (: d :) 2',
    'a[1][2]', 'a/b/c//d', '..', '.', '@*', '*', 'p:a', '*:a', 'p:*', 'Q{http://example.com/ns}a', 'text()', 'node()',
    'element(a)', 'attribute(*, xs:integer)', 'document-node()', 'string-join(("a", "b"), "-")', 'concat("a", "b", "c")',
    'math:pi()', 'array:size([1])', 'map:size(map{})', 'fn:abs(-1)', 'abs#1', 'function($a) { $a }(1)', 'abs(?)(1)',
    '1 = 1 = true()', '1 < 2 < 3', '-a | b', '- - 1', '+1', '1 ne 2', '1 is 1', '1 << 2', '"a" => concat("b")',
    'tokenize("a b")', 'matches("a", "[a-z]")', 'replace("abc", "b", "x")', 'format-number(1.5, "0.0")',
    'xs:date("2000-01-01") + xs:dayTimeDuration("P1D")', 'current-dateTime()', 'position() = last()',
    'count(//*)', 'sum((1, 2))', 'avg(())', 'min((1, "a"))', 'string(.)', 'data(.)', 'root()', 'lang("en")',
    '1 => nosuch:f(2)', '1 => (', '1 => math:', 'array {1, 2}', 'map {1: 2, 3: 4}', 'every $x in () satisfies 1',
]
PROBES = [
    'abs(-1)', '1 + 2 * 3', '/a/b[1]', 'for $x in (1, 2) return $x', '1 => abs()', "map{'a': 1}?a",
    'let $f := function($x) { $x } return $f(1)', "'a' || 'b'", 'a/b | c', '1 to 3', "xs:integer('1')",
    'if (1) then 2 else 3', '(: c :) $v + 1', 'p:a/@*', "concat('a', 'b')", '- 1',
]
RESERVED = ['if', 'for', 'let', 'some', 'every', 'return', 'in', 'satisfies', 'then', 'else', 'function', 'map',
            'array', 'element', 'attribute', 'node', 'text', 'instance', 'of', 'cast', 'as', 'treat', 'castable',
            'and', 'or', 'div', 'mod', 'to', 'union', 'intersect', 'except', 'eq', 'is']
TOKEN_RE = re.compile(r"""\s+|"[^"]*"|'[^']*'|\d+(?:\.\d+)?|[A-Za-z_][\w.\-]*|:=|=>|\|\||!=|<=|>=|<<|>>|//|::|\(:|:\)|.""", re.S)

DOC = '<r xmlns:p="http://example.com/ns"><a x="1">1<b n="2">x</b></a><p:a>3</p:a><c/></r>'
URIS = ['http://sim.test/a.txt', 'http://sim.test/b.json', 'file:///simfs/c.txt', 'https://sim.test/d.json',
        '/simfs/e.json', 'rel/f.txt', 'http://sim.test/a b', 'http://sim.test/\x00x', '/simfs/\x00y.json',
        'http://[bad', 'sim://x/y', 'http://sim.test/g.txt#frag']
FILE_TEXTS = ['{"a": 1, "b": [1, 2]}', 'line1\nline2\n', 'café €', '[1, 2', '', '﻿bom', 'x' * 300,
              'café naïve', 'pâté\nöl\n', '{"k": "é"}']
URI_VARS = {'u%d' % i: u for i, u in enumerate(URIS)}
IO_EXPRS = ['json-doc(%s)', 'json-doc(%s, map{"liberal": true()})', 'unparsed-text(%s)', 'unparsed-text(%s, "utf-8")',
            'unparsed-text(%s, "utf-16")', 'unparsed-text-lines(%s)', 'unparsed-text-available(%s)',
            'unparsed-text-available(%s, "iso-8859-1")', 'count(unparsed-text-lines(%s))',
            'json-doc(%s)?a', 'for $u in (%s) return unparsed-text-available($u)', 'doc-available(%s)',
            'string-length(unparsed-text(%s))', 'unparsed-text(%s, "rot13")', 'unparsed-text-lines(%s, "zlib")',
            'unparsed-text-available(%s, "base64")', 'unparsed-text(%s, "quopri")', 'unparsed-text-available(%s, "undefined")',
            'unparsed-text-lines(%s, "idna")']


def mutate(rng, src):
    toks = TOKEN_RE.findall(src)
    if not toks:
        return src
    k = rng.randrange(9)
    i = rng.randrange(len(toks))
    if k == 0:
        del toks[i]
    elif k == 1:
        toks.insert(i, toks[i])
    elif k == 2 and len(toks) > 1:
        j = rng.randrange(len(toks))
        toks[i], toks[j] = toks[j], toks[i]
    elif k == 3:
        toks.insert(i, rng.choice(['(', ')', '[', ']', '{', '}', '(:', ':)', '"', "'"]))
    elif k == 4:
        toks[i] = rng.choice(RESERVED)
    elif k == 5:
        toks.insert(i, rng.choice([',', '/', '//', '::', ':', '$', '@', '?', '!', '=>', '||', '#', '*', '..']))
    elif k == 6:
        toks = toks[:i]
    elif k == 7:
        toks[i] = rng.choice(['é', '́', '\U0001F600', '\x00', '￾', '\ud800', '\t', ' ', '\\'])
    else:
        toks.insert(i, rng.choice(['1e', '1.', '.5e+', '0x10', '1..2', '12345678901234567890123', '1e400']))
    return ''.join(toks)


def random_unicode(rng):
    n = rng.randint(1, 24)
    pools = [(0x20, 0x7e), (0xa0, 0x17f), (0x300, 0x36f), (0x2000, 0x206f), (0x1f600, 0x1f64f), (0, 0x1f),
             (0xd800, 0xdfff), (0xfff0, 0xffff)]
    out = []
    for _ in range(n):
        lo, hi = rng.choice(pools)
        out.append(chr(rng.randint(lo, hi)))
    return ''.join(out)


def deep_source(rng):
    n = rng.choice([50, 200, 400, 1000, 3000])
    k = rng.randrange(9)
    if k == 0:
        return '-' * n + '1'
    if k == 1:
        return '(' * n + '1' + ')' * n
    if k == 2:
        return '1' + '+1' * n
    if k == 3:
        return 'a/' * n + 'a'
    if k == 4:
        return 'a' + '[1]' * n
    if k == 5:
        return 'not(' * n + '1' + ')' * n
    if k == 6:
        return 'if (1) then ' * n + '1' + ' else 1' * n
    if k == 7:
        return '[' * n + ']' * n
    return '1' + ' => abs()' * n


ARG_POOL = [
    "''", "'a'", "'abc'", "'1'", "' '", "'[a-z'", "'\\'", "'$1'", "'\\$'", "'x*'", "'(a)|(b)'", "'é'", "'a b  c'",
    "'2000-01-01'", "'[Y0001]-[M01]-[D01]'", "'[H01]:[m01]:[s01].[f001] [z] [Pn]'", "'[Y'", "'[YI] [MNn,3-3] [Dwo] [FNn]'",
    "'#,##0.00'", "'0'", "'0.0e0'", "'#'", "'0;0;0'", "'%'", "'Ww'", "'w'", "'i'", "'A'", "'a'", "'I'", "'1;o'", "'٠'",
    "'00,0,00'", "'#a'", "'en'", "'it'", "'zz'", "'NFC'", "'nfkd'", "'xyz'", "'s'", "'x'", "'imsxq'", "'q'", "'j'",
    "'{\"a\": [1, {\"b\": null}]}'", "'<a><b/></a>'", "'<a'", "'Wed, 06 Jun 1994 07:29:35 GMT'", "'http://x.test/a/b?c#d'",
    "'../a'", "':'", "'p:a'", "'Q{u}a'", "'utf-8'", "'nope'", "'Europe/Rome'", "'../../etc/passwd'", "'AD'", "'ISO'",
    "'Q{u}AD'", "'de'", "'fr'", "'[D1o] [MNn], [Y]'", "'[h]:[m01] [PN]'", "'[ZN] [z] [Z]'", "'[Y,2-2]/[M,3]'", "'[E] [C]'",
    "'[W] [w] [F1] [d]'", "'[Y;x]'", "'[[Y]]'", "'[H01][m01][s01][f1,3-3]'", "'[Yi] [YW] [Y*]'", "'0.0#e00'", "'00.00%'",
    "'\\p{L}+'", "'\\P{IsBasicLatin}'", "'[a-z-[aeiou]]'", "'(a|b)*c{2,3}?'", "'^.*$'", "'\\1'", "'(?i)a'", "'a{99999}'",
    '0', '1', '-1', '2', '3', '10', '255', '1.5', '-0.0e0', '1e308', '1e-320', '0.1', '1e0', '4.5', '-2.5',
    'xs:double("NaN")', 'xs:double("INF")', 'xs:float("-INF")', 'xs:float("1.5")', '12345678901234567890123456789',
    '2147483648', '-9223372036854775809', '1114112', '55296', '1' + '0' * 310, '0.000000000000000000000000000001', '1e400', '-1e400',
    'true()', 'false()', '()', '(1, 2, 3)', "('a', 'b')", '(1, "a")', '(1 to 5)', '(3, 1, 2)', '(0, -1)',
    '[1, 2]', '[]', '[(), (1, 2)]', '[[1], [2, [3]]]', 'map{}', "map{'a': 1}", 'map{1: (1, 2)}', "map{'liberal': true()}",
    "map{'duplicates': 'reject'}", "map{'duplicates': 'nope'}", "map{'method': 'xml', 'indent': true()}", "map{'escape': 1}",
    "map{'fallback': abs#1}", "map{'a': map{'a': [1]}}",
    '.', '/', '/*', '//@*', '//text()', '/r/a', '/r/a/b', '//*', '/r/c', '(/r/a, /r/c)', '/r/a/@x', '/nothing',
    'xs:date("2000-01-01")', 'xs:date("-0001-12-31+14:00")', 'xs:dateTime("9999-12-31T23:59:59.999Z")',
    'xs:dateTime("2000-02-29T12:00:00-05:00")', 'xs:time("24:00:00")', 'xs:time("12:30:00.5+01:00")',
    'xs:duration("P1Y2M3DT4H5M6.7S")', 'xs:dayTimeDuration("-PT0S")', 'xs:dayTimeDuration("PT14H")',
    'xs:dayTimeDuration("PT15H")', 'xs:dayTimeDuration("PT1M30S")', 'xs:yearMonthDuration("P99999999Y")',
    'xs:yearMonthDuration("-P1M")', 'xs:QName("p:a")', 'xs:anyURI("http://x/y z")', 'xs:hexBinary("0aFF")',
    'xs:base64Binary("YQ==")', 'xs:untypedAtomic("1")', 'xs:untypedAtomic("x")', 'xs:gYear("2000")', 'xs:gMonthDay("--02-29")',
    'xs:integer(5)', 'xs:unsignedByte(255)', 'xs:long("-9223372036854775808")', 'xs:NCName("a")', 'xs:language("en-US")',
    'abs#1', 'concat#3', 'function($x) { $x }', 'function($a, $b) { $a }', 'function() { 1 }', 'true#0', 'position#0',
    'function($x) { error() }', 'function($x as xs:integer) as xs:string { $x }', 'map:get(?, 1)', 'math:pow(?, 2)',
    # encoding declarations that the XML parsers refuse
    "'<?xml version=\"1.0\" encoding=\"bogus\"?><r/>'", "'<?xml\tversion=\"1.0\" encoding=\"utf-8\"?><r/>'",
    "'<?xml version=\"1.0\" encoding=\"utf-16\"?><r/>'", "'<?xml version=\"1.0\" encoding=\"rot13\"?><r/>'",
    # presentation modifiers on components that are not numbers, arguments inside (-1, 0) for the logarithms
    "'[PI]'", "'[Pw]'", "'[ZI]'", "'[Zw]'", "'[EI] [Ea]'", "'[PWw] [za]'", "'[FI] [Fi]'", "'[EWw]'", '-0.5', '-0.999', '-1e-300',
    # implementation limits and unusual but legal values (pristine notes of round 4)
    '9' * 5000, '9' * 4000 + ' * ' + '9' * 4000, '9' * 4299 + ' + ' + '9' * 4299, "'" + '9' * 5000 + "'", "'1e999'", "'\"\\u0000\"'",
    "'{\"\\u0000\": 1}'", "'[Y,99999999999999999999]'", "'[s,99999999999999999999-*]'", "'[D,*-99999999999999999999]'", "'rot13'", "'zlib'",
    "'base64'", "'undefined'", "'idna'", "QName('http://a:b/', 'p')", "QName('http://[', 'p')", "QName('', 'a')",
    "xs:dayTimeDuration('P9999999999D')", "xs:duration('PT" + '9' * 40 + "S')", "xs:dayTimeDuration('PT" + '9' * 5000 + "S')",
    "map{'fallback': function($s) { 1 }}", "map{'fallback': string-length#1}", "map{'fallback': function($s) { () }}",
    "map{'validate': true()}", "map{'validate': true(), 'duplicates': 'retain'}",
    "parse-xml('<boolean xmlns=\"http://www.w3.org/2005/xpath-functions\">x</boolean>')",
    "parse-xml('<number xmlns=\"http://www.w3.org/2005/xpath-functions\">1e999</number>')",
    "parse-xml('<map xmlns=\"http://www.w3.org/2005/xpath-functions\"><null key=\"a\">x</null></map>')",
]


def _pool_classes():
    """ARG_POOL split by the kind of value an argument text denotes (for typed argument selection)."""
    cls = {'string': [], 'numeric': [], 'boolean': [], 'datetime': [], 'duration': [], 'function': [], 'map': [],
           'array': [], 'node': [], 'qname': [], 'binary': [], 'empty': ['()'], 'seq': []}
    for a in ARG_POOL:
        if a.startswith(("'", '"')) or a.startswith(('xs:anyURI', 'xs:NCName', 'xs:language', 'xs:untypedAtomic')):
            cls['string'].append(a)
        elif re.match(r'^-?[\d.]', a) or a.startswith(('xs:double', 'xs:float', 'xs:integer', 'xs:unsigned', 'xs:long')):
            cls['numeric'].append(a)
        elif a in ('true()', 'false()'):
            cls['boolean'].append(a)
        elif a.startswith(('xs:date', 'xs:time', 'xs:g')):
            cls['datetime'].append(a)
        elif a.startswith(('xs:duration', 'xs:dayTime', 'xs:yearMonth')):
            cls['duration'].append(a)
        elif '#' in a or a.startswith('function') or a.endswith('?)') or '(?' in a:
            cls['function'].append(a)
        elif a.startswith('map'):
            cls['map'].append(a)
        elif a.startswith('['):
            cls['array'].append(a)
        elif a.startswith(('.', '/')) or a.startswith(('(/', 'parse-xml(')):
            cls['node'].append(a)
        elif a.startswith(('xs:QName', 'QName(')):
            cls['qname'].append(a)
        elif a.startswith(('xs:hex', 'xs:base64')):
            cls['binary'].append(a)
        elif a.startswith('('):
            cls['seq'].append(a)
    return cls


POOL_CLASSES = _pool_classes()
REGEX_POOL = ["'[a-z'", "'x*'", "'(a)|(b)'", "'\\p{L}+'", "'\\P{IsBasicLatin}'", "'[a-z-[aeiou]]'", "'(a|b)*c{2,3}?'", "'^.*$'",
              "'\\1'", "'(?i)a'", "'a{99999}'", "'a{99999999999}'", "'a{2,1}'", "'(a*)*b'", "'\\p{IsNoSuchBlock}'", "'a{'", "'}'", "'{}'", "'a{,3}'", "'(a'",
              "'a)'", "'[]'", "'[^]'", "'\\'", "'a|'", "'(())'", "'\\p{Lu}{2}'", "'x{0}'", "'.'", "''", "'\\s+'", "'\\i\\c*'",
              "'[\\w-[\\d]]'", "'a{1}{2}'", "'(a)\\2'", "'\\n'", "'$'", "'^'",
              # patterns that are empty or match the empty string only once the 'x' flag has removed their whitespace
              "' '", "'b *'", "'  \t'", "' a '", "'a | '", "' | a'", "'( )'", "'a *'", "' ?'", "'[ ]'", "'\\ '", "'a\n'"]
FLAG_POOL = ["''", "'i'", "'s'", "'m'", "'x'", "'q'", "'imsxq'", "'j'", "'ii'", "' '", "'I'"]
REPLACEMENT_POOL = ["''", "'$1'", "'$0'", "'\\$'", "'$'", "'\\'", "'$9'", "'x'", "'\\\\'", "'$a'", "'$10'"]
PICTURE_POOL = [a for a in ARG_POOL if a.startswith("'") and ('[' in a or '#' in a or '0' in a or a in ("'Ww'", "'w'", "'i'", "'A'", "'a'",
                                                                                                           "'I'", "'1;o'", "'%'"))]
NUMBER_EDGE_POOL = ['0', '-0.0e0', '0.0', '0e0', '1', '-1', '0.5', '1.5', '-2.5', '1e-320', '1e308', '123456789.123456789', '1234567',
                    'xs:double("NaN")', 'xs:double("INF")', 'xs:float("-INF")', '12345678901234567890123456789', '0.000001',
                    '1e21', '-1e-7', '100', '999999999999999999999', 'xs:float("1.5")', 'xs:decimal("1.005")']


EXP_PICTURES = ["'0.0e0'", "'0.0#e00'", "'#.#e0'", "'00e00'", "'0e0'", "'0.00e00;-0e0'", "'#e0'", "'0.0e0%'", "'1e1'", "'0,0.0e0'"]
DATE_PICTURES = [a for a in ARG_POOL if a.startswith("'[")] + ["'[Y0001]-[M01]-[D01]T[H01]:[m01]:[s01]'", "'[MNn] [D1o], [Y]'",
                                                               "'[FNn,*-3]'", "'[Y]['", "'[]'", "'[Q]'", "'[M99]'", "'[D٠١]'"]
FORMAT_VALUES = {
    'format-number': NUMBER_EDGE_POOL, 'format-integer': [x for x in NUMBER_EDGE_POOL if re.match(r'^-?\d+$', x)] + ['-5', '11', '4000'],
    'format-date': ['xs:date("2000-01-01")', 'xs:date("-0001-12-31+14:00")', 'xs:date("2024-02-29Z")', '()'],
    'format-dateTime': ['xs:dateTime("9999-12-31T23:59:59.999Z")', 'xs:dateTime("2000-02-29T12:00:00-05:00")', '()'],
    'format-time': ['xs:time("24:00:00")', 'xs:time("12:30:00.5+01:00")', 'xs:time("00:00:00Z")'],
}


def format_source(rng):
    """Formatting functions over a grid of edge values and pictures (exponents, grouping, optional digits, ordinals)."""
    f = rng.choice(sorted(FORMAT_VALUES))
    value = rng.choice(FORMAT_VALUES[f])
    if f == 'format-number':
        pic = rng.choice(EXP_PICTURES + [a for a in PICTURE_POOL if not a.startswith("'[")])
    elif f == 'format-integer':
        pic = rng.choice(["'1'", "'01'", "'a'", "'A'", "'i'", "'I'", "'w'", "'W'", "'Ww'", "'1;o'", "'w;o'", "'#,##0'", "'0,000'",
                          "'١'", "'一'", "'α'", "'1;c'", "'Ww;o(-e)'", "'00,0,00'", "'#'", "''", "';'", "'a;o'", "'1(x)'"])
    else:
        pic = rng.choice(DATE_PICTURES)
    extra = ''
    if f != 'format-number' and f != 'format-integer' and rng.random() < 0.3:
        extra = ', %s, %s, %s' % (rng.choice(["'en'", "'it'", "'de'", "'zz'", '()']), rng.choice(["'AD'", "'ISO'", "'OS'", "'Q{u}x'", '()']),
                                  rng.choice(["'Europe/Rome'", "'us'", "'xx'", '()']))
    elif f == 'format-integer' and rng.random() < 0.3:
        extra = ', %s' % rng.choice(["'en'", "'it'", "'de'", "'fr'", "'zz'", '()'])
    elif f == 'format-number' and rng.random() < 0.2:
        extra = ', %s' % rng.choice(["'nope'", '()', "'Q{u}f'"])
    return '%s(%s, %s%s)' % (f, value, pic, extra)


DT_VALUES = ['xs:date("9999-12-31")', 'xs:date("0001-01-01")', 'xs:date("-0001-12-31+14:00")', 'xs:dateTime("9999-12-31T23:59:59.999Z")',
             'xs:dateTime("0001-01-01T00:00:00Z")', 'xs:date("2000-02-29")', 'xs:time("23:59:59")', 'xs:time("00:00:00-14:00")',
             'xs:dateTime("2000-01-31T12:00:00+14:00")', 'xs:date("9999-01-31-14:00")', 'xs:gYear("9999")', 'xs:gYearMonth("9999-12")']
DUR_VALUES = ['xs:yearMonthDuration("P1M")', 'xs:yearMonthDuration("-P1M")', 'xs:yearMonthDuration("P1Y")', 'xs:yearMonthDuration("-P10000Y")',
              'xs:yearMonthDuration("P99999999Y")', 'xs:dayTimeDuration("P1D")', 'xs:dayTimeDuration("-P1D")', 'xs:dayTimeDuration("PT1S")',
              'xs:dayTimeDuration("P9999999D")', 'xs:dayTimeDuration("-PT0.001S")', 'xs:duration("P1Y1D")', 'xs:dayTimeDuration("PT14H")']
DT_FORMS = ['%d + %u', '%d - %u', '%u + %d', '%d - %e', '%u * 2', '%u * 1e300', '%u div 0.5', '%u div %w', '%u div 1e-300', '%d lt %e',
            '%d eq %e', 'max((%d, %e))', '%u + %w', '%u - %w', 'adjust-date-to-timezone(%d, %u)', 'adjust-dateTime-to-timezone(%d, %u)',
            '%d + %u + %w', 'year-from-date(%d + %u)', 'string(%d - %u)', '(%d - %e) div %u', 'sum((%u, %w))', 'avg((%u, %w))', '%u * -1',
            '%u idiv %w', '%d - %u - %u']


def datearith_source(rng):
    """Date/time and duration arithmetic at the limits of the value spaces."""
    f = rng.choice(DT_FORMS)
    return f.replace('%d', rng.choice(DT_VALUES)).replace('%e', rng.choice(DT_VALUES)).replace('%u', rng.choice(DUR_VALUES)) \
        .replace('%w', rng.choice(DUR_VALUES))


REGEX_INPUTS = ["'abracadabra'", "'a1b22c333'", "''", "'The cat sat'", "'a.b|c'", "'\n x \t'", "'é€😀'", "'aaa'", "'2000-01-01'"]


def regex_source(rng):
    """The regular expression functions over a grid of inputs, patterns, replacement strings and flags."""
    f = rng.choice(['replace', 'replace', 'tokenize', 'matches', 'analyze-string'])
    inp, pat, flags = rng.choice(REGEX_INPUTS), rng.choice(REGEX_POOL), rng.choice(FLAG_POOL)
    with_flags = rng.random() < 0.4
    if f == 'replace':
        args = [inp, pat, rng.choice(REPLACEMENT_POOL)] + ([flags] if with_flags else [])
    else:
        args = [inp, pat] + ([flags] if with_flags else [])
    text = '%s(%s)' % (f, ', '.join(args))
    if f == 'analyze-string':
        text = rng.choice(['%s', 'string(%s)', 'count(%s//*)', '%s//*:group/@nr/string()']) % text
    return text


def typed_pool(name, index, declared, version):
    """The pool an argument is drawn from most of the time: the values its declared type admits (or the special
    strings the function interprets: pictures, regular expressions, flags, replacement strings)."""
    base = name.split(':')[-1]
    if base in ('matches', 'replace', 'tokenize', 'analyze-string'):
        if index == 1:
            return REGEX_POOL
        if (base == 'replace' and index == 2):
            return REPLACEMENT_POOL
        if (base == 'replace' and index == 3) or (base != 'replace' and index == 2):
            return FLAG_POOL
    if base.startswith('format-') and index == 1:
        return PICTURE_POOL
    if base in ('format-number', 'format-integer', 'round', 'round-half-to-even') and index == 0:
        return NUMBER_EDGE_POOL
    t = declared.rstrip('?*+')
    if t in ('xs:string', 'xs:anyURI'):
        return POOL_CLASSES['string']
    if t in ('xs:numeric', 'xs:double', 'xs:integer', 'xs:decimal', 'xs:float'):
        return POOL_CLASSES['numeric']
    if t == 'xs:boolean':
        return POOL_CLASSES['boolean']
    if t in ('xs:date', 'xs:dateTime', 'xs:time'):
        return [a for a in POOL_CLASSES['datetime'] if a.startswith(t + '(')] or POOL_CLASSES['datetime']
    if t.endswith('Duration') or t == 'xs:duration':
        return POOL_CLASSES['duration']
    if t.startswith('function'):
        return POOL_CLASSES['function']
    if t.startswith('map'):
        return POOL_CLASSES['map']
    if t.startswith('array'):
        return POOL_CLASSES['array']
    if t in ('node()', 'element()', 'document-node()'):
        return POOL_CLASSES['node']
    if t == 'xs:QName':
        return POOL_CLASSES['qname']
    return None


def funcall_source(rng, version='3.1'):
    """A call of any library function: most arguments are drawn from the values the declared type admits (edge
    values, pictures, regular expressions), the others from values of any type (function conversion rules)."""
    order = ['1.0', '2.0', '3.0', '3.1']
    avail = [f for f in FUNCTIONS if order.index(f[3]) <= order.index(version)]
    name, lo, hi, _v, declared = rng.choice(avail)
    if hi is None:
        hi = lo + 3
    n = rng.randint(lo, hi) if rng.random() < 0.9 else rng.choice([max(0, lo - 1), hi + 1])
    pool = ARG_POOL if version >= '3.0' else [a for a in ARG_POOL if not re.search(r'[\[{#?]|function', a.split("'")[0])]
    if version == '1.0':
        pool = [a for a in pool if not re.search(r'xs:|\(.*,|to ', a) and a not in ('()',)]
    allowed = set(pool)
    args = []
    for k in range(n):
        typed = typed_pool(name, k, declared[min(k, len(declared) - 1)], version) if declared else None
        if typed and rng.random() < 0.75:
            typed = [a for a in typed if a in allowed or (a.startswith("'") and version != '1.0') or a[0].isdigit()
                     or a[0] in '-'] or pool
            if version == '1.0':
                typed = [a for a in typed if 'xs:' not in a] or pool
            args.append(rng.choice(typed))
        else:
            args.append(rng.choice(pool))
    if version >= '3.0' and not name.startswith('xs:') and rng.random() < 0.5 and name.count(':') == 0:
        name = 'fn:' + name
    x = rng.random()
    if version >= '3.1' and x < 0.08 and n > 0:
        return args[0] + ' => ' + name + '(' + ', '.join(args[1:]) + ')'
    if version >= '3.1' and x < 0.16:
        return 'apply(%s#%d, [%s])' % (name, n, ', '.join(args))
    if version >= '3.0' and x < 0.24 and n > 0:
        i = rng.randrange(n)
        held = args[i]
        args2 = list(args)
        args2[i] = '?'
        return '%s(%s)(%s)' % (name, ', '.join(args2), held)
    if version >= '3.0' and x < 0.28 and n > 1:
        # a partial application applied partially again, also with the wrong number of arguments
        first = '%s(%s)' % (name, ', '.join('?' for _ in range(n)))
        m = rng.choice([n, n, n - 1, n + 1])
        second = [rng.choice(['?', a]) for a in (args + args)[:m]]
        if '?' not in second:
            second[0] = '?'
        return 'let $f := %s return $f(%s)(%s)' % (first, ', '.join(second), ', '.join(
            a for a, b in zip(args, second) if b == '?'))
    if version >= '3.0' and x < 0.33:
        return 'for-each(%s, %s#1)' % (rng.choice(pool), name) if lo <= 1 <= hi else '%s#%d' % (name, n)
    return '%s(%s)' % (name, ', '.join(args))


BINARY_OPS = ['+', '-', '*', 'div', 'idiv', 'mod', '=', '!=', '<', '<=', '>', '>=', 'eq', 'ne', 'lt', 'le', 'gt', 'ge',
              'is', '<<', '>>', 'and', 'or', '|', 'union', 'intersect', 'except', 'to', '||', '!', ',', '/', '//']
TYPE_NAMES = ['xs:integer', 'xs:decimal', 'xs:double', 'xs:float', 'xs:string', 'xs:boolean', 'xs:date', 'xs:dateTime',
              'xs:time', 'xs:duration', 'xs:dayTimeDuration', 'xs:yearMonthDuration', 'xs:QName', 'xs:anyURI',
              'xs:hexBinary', 'xs:base64Binary', 'xs:untypedAtomic', 'xs:gYear', 'xs:gMonthDay', 'xs:byte',
              'xs:unsignedLong', 'xs:NCName', 'xs:language', 'xs:token', 'xs:ID', 'xs:NMTOKENS', 'xs:anyAtomicType',
              'xs:numeric', 'xs:NOTATION', 'xs:dateTimeStamp', 'xs:error', 'xs:nope', 'item()', 'node()', 'element()',
              'attribute(x)', 'map(*)', 'array(*)', 'function(*)', 'empty-sequence()', 'map(xs:integer, item()*)',
              'array(xs:integer)', 'function(item()) as item()', 'document-node(element(r))', 'text()',
              'xs:*', "xs:string('a:b')", 'fn:abs(xs:int(1))', 'xs:', ':a', 'Q{u}a', 'Q{http://www.w3.org/2001/XMLSchema}int']


def opcall_source(rng, version='3.1'):
    """Operators, casts, type tests, predicates, lookups and paths over arguments of any type."""
    pool = ARG_POOL if version >= '3.0' else [a for a in ARG_POOL if not re.search(r'[\[{#?]|function', a.split("'")[0])]
    if version == '1.0':
        pool = [a for a in pool if not re.search(r'xs:|\(.*,|to ', a) and a not in ('()',)]
    a, b, c = rng.choice(pool), rng.choice(pool), rng.choice(pool)

    def fill(tmpl, *args):
        parts = tmpl.split('%s')
        return ''.join(p + (args[i] if i < len(parts) - 1 else '') for i, p in enumerate(parts))
    k = rng.randrange(14)
    if k < 5:
        ops = BINARY_OPS if version != '1.0' else ['+', '-', '*', 'div', 'mod', '=', '!=', '<', '<=', '>', '>=', 'and',
                                                   'or', '|', '/', '//']
        return fill('%s %s %s', a, rng.choice(ops), b)
    if version == '1.0':
        return fill(rng.choice(['-%s', '%s[1]', '(%s)[1]', '%s/..', '%s/@*', '- - %s']), a)
    if k == 5:
        t = rng.choice(TYPE_NAMES) + rng.choice(['', '', '?', '*', '+'])
        return fill('%s %s %s', a, rng.choice(['instance of', 'treat as', 'cast as', 'castable as']), t)
    if k == 6:
        return fill(rng.choice(['-%s', '+%s', '- - %s', 'not(%s)', 'boolean(%s)', 'string(%s)', 'data(%s)', 'count(%s)']), a)
    if k == 7:
        return fill('(%s)[%s]', a, b)
    if k == 8:
        return fill(rng.choice(['if (%s) then %s else %s', 'for $x in %s return ($x, %s, %s)',
                           'some $x in %s satisfies $x = %s or %s', 'every $x in %s satisfies $x != %s and %s']), a, b, c)
    if k == 9 and version >= '3.1' and rng.random() < 0.4:
        name = rng.choice(['reverse', 'head', 'tail', 'sort', 'contains', 'for-each', 'filter', 'abs', 'string', 'count', 'concat',
                           'array:size', 'map:keys', 'fn:upper-case', 'remove', 'insert-before', 'data', 'empty', 'exists'])
        return rng.choice([fill('%s => %s()', a, name), fill('%s => %s(%s)', a, name, b), fill('%s => %s(%s) => %s()', a, name, b, name),
                           fill('%s => (function($s) { count($s) })()', a), fill('%s => (%s)()', a, b),
                           fill('(%s => concat(?, %s))(%s)', a, b, c)])
    if k == 9 and version >= '3.1':
        return fill(rng.choice(['(%s)?(%s)', '(%s)?*', '(%s)(%s)', '%s => %s()', 'map{%s: %s}', '[%s, %s]',
                           'array{%s, %s}', '(%s) ! (%s)']), a, b)
    if k == 10:
        return fill(rng.choice(['%s/%s', '%s//%s', '(%s)/(%s)', '%s/self::node()[%s]', '%s/ancestor-or-self::*[%s]']), a, b)
    if k == 11 and version >= '3.0':
        return fill(rng.choice(['let $x := %s return $x(%s)', 'let $f := function($a as xs:integer) as xs:string { $a } return $f(%s, %s)',
                           'function($a) { $a + %s }(%s)', '(%s)(%s)']), a, b)
    if k == 12:
        return fill('%s %s %s %s %s', a, rng.choice(BINARY_OPS), b, rng.choice(BINARY_OPS), c)
    return fill('(%s, %s)[%s]', a, b, c)


# the clock seam: every dynamic context gets this instant as fn:current-dateTime() (the real clock would make the event
# log of a run differ from its replay)
import datetime as _datetime
FIXED_NOW = _datetime.datetime(2024, 2, 29, 12, 0, 0, tzinfo=_datetime.timezone.utc)


def valid_source(rng):
    k = rng.randrange(17)
    if k == 16:
        return datearith_source(rng)
    if k >= 14:
        return regex_source(rng)
    if k == 13:
        return format_source(rng)
    if k >= 11:
        return opcall_source(rng, rng.choice(['1.0', '2.0', '3.0', '3.1', '3.1', '3.1']))
    if k >= 8:
        return funcall_source(rng, rng.choice(['1.0', '2.0', '3.0', '3.1', '3.1', '3.1']))
    if k == 0:
        return rng.choice(X.PATHS)
    if k == 1:
        return rng.choice(X.SCALARS + X.XP2)
    if k == 2:
        return rng.choice(X.XP3)
    if k == 3:
        return rng.choice(X.VAR_EXPRS + X.FAILING)
    if k == 4:
        g = CollGen(rng, '3.1', [], lock_bias=0.5)
        return g.expr(rng.choice([0, 1, 2]))
    if k == 5:
        g = ML.Gen(rng)
        return ML.render(g.gen(rng.choice(['I', 'S', 'B']), {}, rng.choice([1, 2, 3])))
    return rng.choice(OPERATOR_EXPRS)


def gen_source(rng):
    x = rng.random()
    if x < 0.35:
        return valid_source(rng), 'valid'
    if x < 0.8:
        s = valid_source(rng)
        for _ in range(rng.choice([1, 1, 2, 3])):
            s = mutate(rng, s)
        return s[:400], 'mutated'
    if x < 0.92:
        return random_unicode(rng), 'random'
    return deep_source(rng), 'deep'


def gen_parser_cfg(rng):
    v = rng.choice(['1.0', '2.0', '3.0', '3.1', '3.1'])
    cfg = {'v': v, 'strict': rng.random() < 0.8, 'ns': rng.choice([True, True, True, True, False, False, 'err'])}
    if v in ('1.0', '2.0') and rng.random() < 0.2:
        cfg['compat'] = True
    if v != '1.0' and rng.random() < 0.3:
        cfg['base_uri'] = 'http://sim.test/base/'
    return cfg


def gen_case(rng, tier):
    thorough = tier == 'thorough'
    nparsers = rng.randint(1, 3)
    parsers = [gen_parser_cfg(rng) for _ in range(nparsers)]
    installed = rng.sample(['it_IT.UTF-8', 'en_US.UTF-8', 'de_DE.UTF-8'], rng.choice([0, 0, 1, 2]))
    files = {}
    for u in rng.sample(URIS, rng.randint(2, 6)):
        files[u] = {'text': rng.choice(FILE_TEXTS), 'fault': rng.choice([None] * 12 + FAULT_KINDS),
                    'enc': rng.choice(['utf-8', 'utf-8', 'utf-16', 'latin-1', 'latin-1', 'cp1252', 'utf-16-le'])}
    nops = rng.randint(2, 30 if thorough else 12)
    reclimit = rng.choice([None, None, None, 200, 400])
    ops = []
    if rng.random() < 0.2:
        # grid-focused history: one XPath 3.1 parser and only well-formed calls of one family (a value x picture, an
        # input x pattern x replacement x flags, a typed argument grid), so that the rare cell of a grid is reached
        fam = rng.choice(['fmt', 'fmt', 'fmt', 'rx', 'rx', 'fun', 'fun', 'op', 'dt', 'dt'])
        for _ in range(rng.randint(6, 24 if thorough else 14)):
            src = format_source(rng) if fam == 'fmt' else regex_source(rng) if fam == 'rx' else \
                funcall_source(rng, '3.1') if fam == 'fun' else datearith_source(rng) if fam == 'dt' else opcall_source(rng, '3.1')
            probes = sorted(rng.sample(range(len(PROBES)), 3))
            if rng.random() < 0.3:
                ops.append({'op': 'parse', 'p': 0, 'src': src, 'kind': 'valid', 'probes': probes})
            else:
                ops.append({'op': 'eval', 'p': 0, 'src': src, 'kind': 'valid', 'lazy': rng.random() < 0.3,
                            'vars': rng.random() < 0.5, 'probes': probes})
        return {'config': {'parsers': [{'v': '3.1', 'strict': True, 'ns': True}], 'installed': installed, 'files': files,
                           'reclimit': None, 'shared_ctx': False, 'profile': 'grid:' + fam,
                           'backend': rng.choice(['et', 'et', 'lxml'])}, 'ops': ops}
    shared_ctx = rng.random() < 0.25
    hot = rng.sample(sorted(files), min(len(files), rng.choice([1, 1, 2])))     # resources asked for again and again
    for _ in range(nops):
        x = rng.random()
        if shared_ctx and x < 0.6:
            # I/O-heavy history on one dynamic context: the same few resources, mostly through variables
            uri = rng.choice(hot)
            arg = '$u%d' % URIS.index(uri) if rng.random() < 0.7 else "'%s'" % uri.replace("'", "''")
            ops.append({'op': 'eval', 'p': rng.randrange(nparsers), 'src': rng.choice(IO_EXPRS) % arg, 'kind': 'io', 'io': True,
                        'at_parse': False, 'probes': sorted(rng.sample(range(len(PROBES)), 3))})
            continue
        p = rng.randrange(nparsers)
        probes = sorted(rng.sample(range(len(PROBES)), 3))
        if x < 0.4:
            src, kind = gen_source(rng)
            ops.append({'op': 'parse', 'p': p, 'src': src, 'kind': kind, 'probes': probes})
        elif x < 0.55:
            src, kind = gen_source(rng)
            ops.append({'op': 'parse_fault', 'p': p, 'src': src, 'kind': kind, 'k': int(2 ** (rng.random() * 12)),
                        'probes': probes})
        elif x < 0.75:
            src, kind = gen_source(rng)
            ops.append({'op': 'eval', 'p': p, 'src': src, 'kind': kind, 'lazy': rng.random() < 0.3,
                        'vars': rng.random() < 0.5, 'probes': probes})
        elif x < 0.9:
            uri = rng.choice(sorted(files)) if rng.random() < 0.6 else rng.choice(URIS)
            arg = "'%s'" % uri.replace("'", "''")
            if rng.random() < 0.4 and uri in URIS:
                arg = '$u%d' % URIS.index(uri)      # from a variable: evaluated with the dynamic context, not by parse()
            if rng.random() < 0.15:
                arg = '(%s, %s)' % (arg, "'%s'" % rng.choice(URIS))
            ops.append({'op': 'eval', 'p': p, 'src': rng.choice(IO_EXPRS) % arg, 'kind': 'io', 'io': True,
                        'at_parse': rng.random() < 0.3, 'probes': probes})
        else:
            g = CollGen(rng, '3.1', installed, lock_bias=0.8)
            ops.append({'op': 'eval', 'p': p, 'src': g.expr(rng.choice([0, 1, 2])), 'kind': 'collation',
                        'locale_fault': sorted(set(rng.randint(1, 4) for _ in range(rng.choice([0, 1, 2])))),
                        'probes': probes})
    return {'config': {'parsers': parsers, 'installed': installed, 'files': files, 'reclimit': reclimit,
                       'shared_ctx': shared_ctx, 'backend': rng.choice(['et', 'et', 'lxml'])}, 'ops': ops}


def simplify(case):
    cfg = case['config']
    if cfg.get('reclimit'):
        yield dict(case, config=dict(cfg, reclimit=None))
    for u in sorted(cfg['files']):
        f2 = dict(cfg['files'])
        del f2[u]
        yield dict(case, config=dict(cfg, files=f2))
    for i, op in enumerate(case['ops']):
        src = op.get('src')
        if not src:
            continue
        cands = []
        toks = TOKEN_RE.findall(src)
        if len(toks) > 1:
            step = max(1, len(toks) // 8)
            for a in range(0, len(toks), step):
                cands.append(''.join(toks[:a] + toks[a + step:]))
        m = re.match(r'^(.)\1{20,}', src)
        if len(src) > 40:
            cands.append(src[:len(src) // 2])
            cands.append(src[len(src) // 2:])
        for c in cands:
            if c and c != src:
                ops = list(case['ops'])
                ops[i] = dict(op, src=c)
                yield dict(case, ops=ops)
        if op.get('locale_fault'):
            ops = list(case['ops'])
            ops[i] = dict(op, locale_fault=[])
            yield dict(case, ops=ops)
        if op.get('lazy') or op.get('vars'):
            ops = list(case['ops'])
            ops[i] = dict(op, lazy=False, vars=False)
            yield dict(case, ops=ops)


def diagnose_timeout(case):
    """Called by the runner when a whole run hit the wall-clock watchdog: every operation is executed alone in a
    fresh child with a generous limit (inputs are <= 400 characters or one of the fixed deep families; a parse or
    evaluation of those takes milliseconds). An operation that alone does not finish is a hang inside code that
    yields no line events (e.g. catastrophic backtracking of a tokenizer pattern)."""
    from ..world import WORLD
    viol = []
    for op in case['ops']:
        single = {'config': case['config'], 'ops': [dict(op, probes=[])]}
        st, _res = runner.fork_call(lambda: run_case(single, WORLD), timeout=25.0)
        if st == 'watchdog':
            viol.append({'cls': 'HANG', 'signature': 'hang:wall-clock:%s' % op.get('kind', '?'),
                         'detail': 'operation %s of %r alone does not finish within 25 s of wall-clock time' % (
                             op['op'], op.get('src', '')[:160]),
                         'features': ['kind:' + op.get('kind', '?'), 'wall-clock'], 'single_case': single})
            break
    return viol


def parser_class(v):
    import elementpath
    from elementpath.xpath30 import XPath30Parser
    from elementpath.xpath31 import XPath31Parser
    return {'1.0': elementpath.XPath1Parser, '2.0': elementpath.XPath2Parser,
            '3.0': XPath30Parser, '3.1': XPath31Parser}[v]


def make_parser(cfg):
    kw = {'strict': cfg.get('strict', True)}
    if cfg.get('ns'):
        kw['namespaces'] = {'p': X.NS}
    if cfg.get('ns') == 'err':
        kw['namespaces'] = {'p': X.NS, 'err': 'urn:other', 'fn': 'urn:not-fn', 'xs': 'http://www.w3.org/2001/XMLSchema'}
    if cfg['v'] != '1.0':
        if cfg.get('compat'):
            kw['compatibility_mode'] = True
        if cfg.get('base_uri'):
            kw['base_uri'] = cfg['base_uri']
    return parser_class(cfg['v'])(**kw)


def parse_outcome(parser, src):
    try:
        tk = parser.parse(src)
        return ['ok', tk.tree, tk.source]
    except (SimDeadlock, SimHang, SimCrash):
        raise
    except BaseException as e:
        return canon_exc(e)


def _pristine_probe(cfg, idx):
    return parse_outcome(make_parser(cfg), PROBES[idx])


VARIABLES = {'v': 1, 's': 'abc', 'i': 5, 'd': 1.5, 'u': None, 'x': 1, 'seq': [1, 2, 3]}


def run_case(case, world):
    import elementpath
    import xml.etree.ElementTree as ET
    cfg = case['config']
    world.locale.reset(installed=cfg.get('installed', []))
    world.locale.fail_only_new = True     # the OS never refuses to restore a locale it had a moment ago
    for u, f in sorted(cfg['files'].items()):
        try:
            data = f['text'].encode(f.get('enc', 'utf-8'))
        except UnicodeError:
            data = f['text'].encode('utf-8')
        world.fs.add(u, data, f.get('fault'))
    violations = []
    stats = {'ops': 0, 'parses': 0, 'failed_parses': 0, 'evaluations': 0, 'probe_comparisons': 0,
             'crash_points_armed': 0, 'io_ops': 0, 'steps': 0}
    shape = []
    root = ET.fromstring(DOC)
    if cfg.get('backend') == 'lxml':
        import lxml.etree as LET
        root = LET.fromstring(DOC)      # fn:parse-xml, fn:serialize... then work with libxml2

    # pristine references for the probe set (this process has parsed nothing yet)
    pristine = {}
    needed = set()
    for op in case['ops']:
        for i in op.get('probes', ()):
            needed.add((op['p'] % len(cfg['parsers']), i))
    for pk, i in sorted(needed):
        pc = cfg['parsers'][pk]
        st, val = runner.fork_call(lambda: _pristine_probe(pc, i), timeout=30)
        pristine[(pk, i)] = val if st == 'ok' else None

    parsers = [make_parser(pc) for pc in cfg['parsers']]
    shared_ctx = [None]
    if cfg.get('reclimit'):
        sys.setrecursionlimit(cfg['reclimit'])
    world.start_monitoring()

    def violate(cls, signature, detail, features=()):
        violations.append({'cls': cls, 'signature': signature, 'detail': detail, 'features': sorted(set(features))})

    def escaped(exc, where, op):
        """An exception that is not an ElementPathError left the API."""
        if isinstance(exc, (MemoryError, SimCrash)):
            return
        feats = ['kind:' + op.get('kind', '?'), 'where:' + where, 'exc:' + type(exc).__name__]
        if cfg.get('reclimit'):
            feats.append('reduced-recursion-limit')
        if isinstance(exc, RecursionError):
            feats.append('deep-input' if op.get('kind') == 'deep' or len(op.get('src', '')) > 200 else 'short-input')
        violate('NON_EP_EXCEPTION', 'escape:%s:%s' % (type(exc).__name__, innermost_ep_frame(exc)),
                '%s of %r let %s escape: %s' % (where, op.get('src', '')[:200], type(exc).__name__, str(exc)[:200]),
                feats)

    stop = False
    for idx, op in enumerate(case['ops']):
        stats['ops'] += 1
        kind = op['op']
        pk = op['p'] % len(parsers)
        p = parsers[pk]
        pc = cfg['parsers'][pk]
        src = op['src']
        world.event(('op', idx, kind, src[:80]))
        world.steps = 0
        world.step_budget = 60_000_000
        world.task = 'main'
        shape.append(kind + ':' + op.get('kind', ''))
        try:
            if kind == 'parse':
                stats['parses'] += 1
                try:
                    p.parse(src)
                except (SimDeadlock, SimHang):
                    raise
                except BaseException as e:
                    stats['failed_parses'] += 1
                    world.event(('parse-error', idx, canon_exc(e)))
                    if not is_ep_error(e):
                        escaped(e, 'parse', op)
            elif kind == 'parse_fault':
                stats['parses'] += 1
                stats['crash_points_armed'] += 1
                world.crash_at = world.steps + op['k']
                try:
                    p.parse(src)
                except SimCrash:
                    world.probe('parse-interrupted-by-crash')
                except (SimDeadlock, SimHang):
                    raise
                except BaseException as e:
                    world.event(('parse-error', idx, canon_exc(e)))
                    if not is_ep_error(e):
                        escaped(e, 'parse', op)
                finally:
                    world.crash_at = None
            elif kind == 'eval':
                stats['evaluations'] += 1
                if op.get('io'):
                    stats['io_ops'] += 1
                if op.get('locale_fault'):
                    world.locale.fail_plan = set(world.locale.set_calls + k for k in op['locale_fault'])
                try:
                    variables = dict(VARIABLES) if op.get('vars') else None
                    if variables:
                        variables['u'] = elementpath.datatypes.UntypedAtomic('12')
                    tk = p.parse(src)
                    if op.get('io') and case['config'].get('shared_ctx'):
                        # one dynamic context for all the I/O evaluations of the history (its resource caches persist)
                        if shared_ctx[0] is None:
                            shared_ctx[0] = elementpath.XPathContext(root, variables=dict(URI_VARS), current_dt=FIXED_NOW)
                        ctx = shared_ctx[0]
                    elif op.get('io'):
                        ctx = elementpath.XPathContext(root, variables=dict(URI_VARS), current_dt=FIXED_NOW)
                    else:
                        ctx = elementpath.XPathContext(root, variables=variables, current_dt=FIXED_NOW)
                    if op.get('lazy'):
                        res = [canon(x) for x in tk.select_results(ctx)]
                    else:
                        res = canon(tk.get_results(ctx))
                    world.event(('result', idx, res))
                except (SimDeadlock, SimHang):
                    raise
                except BaseException as e:
                    world.event(('eval-error', idx, canon_exc(e)))
                    if not is_ep_error(e):
                        escaped(e, 'evaluation', op)
                finally:
                    world.locale.fail_plan = set()
        except SimDeadlock as e:
            violate('DEADLOCK', 'deadlock:%s' % op.get('kind'), 'operation %d (%r) can never finish: %s' % (
                idx, src[:120], e), ['kind:' + op.get('kind', '?')])
            stop = True
        except SimHang as e:
            violate('HANG', 'hang:%s' % op.get('kind'), 'operation %d (%r) exceeded %d line events: %s' % (
                idx, src[:120], 60_000_000, e), ['kind:' + op.get('kind', '?')])
            stop = True
        stats['steps'] += world.steps
        if stop:
            break
        if world.locks_held():
            if kind == 'parse_fault':
                # an asynchronous exception in the one-line window between lock.acquire() and the following
                # try: cannot be closed by any Python code; the statement does not cover it - counted, not judged
                world.probe('lock-leaked-by-async-crash')
            else:
                violate('LOCK_LEAK', 'lock-held-after:%s' % op.get('kind'), 'lock held after operation %d (%r)' % (
                    idx, src[:120]), ['kind:' + op.get('kind', '?')])
            for lk in world.locks:
                lk.owner = None
                lk.owner_task = None
                lk.count = 0
        # the used instance must parse the probe set exactly as a fresh instance does
        world.step_budget = None
        for i in op.get('probes', ()):
            stats['probe_comparisons'] += 1
            used = parse_outcome(p, PROBES[i])
            fresh = parse_outcome(make_parser(pc), PROBES[i])
            ref = pristine.get((pk, i))
            feats = ['after:' + kind, 'kind:' + op.get('kind', '?'), 'v' + pc['v']]
            if used != fresh:
                violate('PARSER_NOT_REUSABLE', 'used-instance-differs:%s' % kind,
                        'after %s of %r the same %s instance parses %r as %r, a fresh instance as %r' % (
                            kind, src[:120], pc['v'], PROBES[i], used, fresh), feats)
                parsers[pk] = p = make_parser(pc)       # resync so the history can go on
                break
            if ref is not None and fresh != ref:
                violate('PARSER_NOT_REUSABLE', 'fresh-instance-differs-from-pristine:%s' % kind,
                        'after %s of %r a fresh %s instance parses %r as %r, in a pristine process as %r' % (
                            kind, src[:120], pc['v'], PROBES[i], fresh, ref), feats + ['class-level-state'])
                break
    world.stop_monitoring()
    nontrivial = []
    if stats['failed_parses'] or stats['crash_points_armed'] or stats['io_ops']:
        nontrivial = [hashlib.sha256(('|'.join(shape) + repr([o.get('src') for o in case['ops']])).encode()).hexdigest()[:16]]
    return {'violations': violations, 'stats': stats, 'nontrivial': nontrivial}
