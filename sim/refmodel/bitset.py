"""Code-point sets as Python big integers (one bit per code point, 0x110000 bits)."""
import unicodedata

MAXCP = 0x10FFFF
FULL = (1 << (MAXCP + 1)) - 1


def rng_mask(a, b):
    """Bits for the half-open range [a, b)."""
    if b <= a:
        return 0
    return ((1 << (b - a)) - 1) << a


def from_codepoints(cps):
    """From an elementpath-style list of ints and (a, b) half-open ranges."""
    m = 0
    for cp in cps:
        if isinstance(cp, int):
            m |= 1 << cp
        else:
            m |= rng_mask(cp[0], cp[1])
    return m


def intervals(m):
    """Canonical maximal half-open intervals of a bitset."""
    out = []
    pos = 0
    while m:
        low = (m & -m).bit_length() - 1          # trailing zeros
        m >>= low
        pos += low
        inv = ~m
        run = (inv & -inv).bit_length() - 1       # trailing ones of m
        out.append((pos, pos + run))
        m >>= run
        pos += run
    return out


def to_codepoints(m):
    """Canonical elementpath-style representation (single ints for singletons)."""
    return [a if b - a == 1 else (a, b) for a, b in intervals(m)]


def popcount(m):
    return bin(m).count('1')


def boundary_points(m, limit=64):
    pts = set()
    for a, b in intervals(m)[:limit]:
        for p in (a - 1, a, a + 1, b - 2, b - 1, b):
            if 0 <= p <= MAXCP:
                pts.add(p)
    pts.update((0, 1, MAXCP - 1, MAXCP))
    return pts


_CATS = {}


def category_bits():
    """{category: bitset} from unicodedata over all 0x110000 code points (cached)."""
    if not _CATS:
        cats = {}
        prev = None
        start = 0
        cat = unicodedata.category
        for cp in range(MAXCP + 2):
            c = cat(chr(cp)) if cp <= MAXCP else None
            if c != prev:
                if prev is not None:
                    cats[prev] = cats.get(prev, 0) | rng_mask(start, cp)
                prev = c
                start = cp
        for k, v in list(cats.items()):
            cats[k[0]] = cats.get(k[0], 0) | v
        _CATS.update(cats)
    return _CATS
