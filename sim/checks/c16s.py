"""
C16 arm (s): fn:sort returns a stable, ordered permutation of its input - call histories on one parsed
sort expression evaluated under different bindings (the key function and the collation-less comparator
live on the token), with items that are equal as Python objects but different XPath values
(1, 1.0, 1e0, true()), so that any memoisation keyed by the item, any unstable or non-total comparator
or any state left between calls shows. Oracle: Python's stable sorted() on model key values.
"""
import hashlib
from fractions import Fraction

from ..canon import canon, canon_exc, is_ep_error

NAME = 'c16s'

# (xpath literal, canonical form, numeric value or None, string() value)
ITEMS = [
    ("0", ['int', '0'], Fraction(0), '0'), ("1", ['int', '1'], Fraction(1), '1'), ("2", ['int', '2'], Fraction(2), '2'),
    ("3", ['int', '3'], Fraction(3), '3'), ("10", ['int', '10'], Fraction(10), '10'),
    ("1.0", ['Decimal', '1.0'], Fraction(1), '1'), ("2.5", ['Decimal', '2.5'], Fraction(5, 2), '2.5'),
    ("0.5", ['Decimal', '0.5'], Fraction(1, 2), '0.5'),
    ("1e0", ['float', '1.0'], Fraction(1), '1'), ("2.5e0", ['float', '2.5'], Fraction(5, 2), '2.5'),
    ("3e0", ['float', '3.0'], Fraction(3), '3'), ("0e0", ['float', '0.0'], Fraction(0), '0'),
    ("true()", ['bool', True], None, 'true'), ("false()", ['bool', False], None, 'false'),
    ("'a'", ['str', 'a'], None, 'a'), ("'B'", ['str', 'B'], None, 'B'), ("'b'", ['str', 'b'], None, 'b'),
    ("'10'", ['str', '10'], None, '10'), ("'9'", ['str', '9'], None, '9'), ("''", ['str', ''], None, ''),
    ("'A'", ['str', 'A'], None, 'A'), ("'ab'", ['str', 'ab'], None, 'ab'), ("'AB'", ['str', 'AB'], None, 'AB'),
    ("'aB'", ['str', 'aB'], None, 'aB'), ("'Ab'", ['str', 'Ab'], None, 'Ab'),
    # appended later (indexes of the items above are kept for the replay files). The fifth field is the position
    # among the numeric values: fn:sort puts NaN before every other value, equal to itself
    ("xs:double('NaN')", ['float', 'NaN'], None, 'NaN', (-2, 0)), ("xs:float('NaN')", ['Float', 'NaN'], None, 'NaN', (-2, 0)),
    ("xs:double('-INF')", ['float', '-inf'], None, '-INF', (-1, 0)), ("xs:double('INF')", ['float', 'inf'], None, 'INF', (1, 0)),
    ("xs:float('1.5')", ['Float', '1.5'], None, '1.5', (0, Fraction(3, 2))),
    # xs:untypedAtomic and xs:anyURI sort as strings
    ("xs:untypedAtomic('b')", ['UntypedAtomic', 'b'], None, 'b'), ("xs:untypedAtomic('A')", ['UntypedAtomic', 'A'], None, 'A'),
    ("xs:untypedAtomic('aa')", ['UntypedAtomic', 'aa'], None, 'aa'), ("xs:anyURI('ab')", ['AnyURI', 'ab'], None, 'ab'),
    ("xs:anyURI('B')", ['AnyURI', 'B'], None, 'B'),
]
STRINGS = [i for i, it in enumerate(ITEMS) if it[1][0] in ('str', 'UntypedAtomic', 'AnyURI')]
NUMERIC_X = [i for i, it in enumerate(ITEMS) if it[2] is not None or len(it) > 4]


def numkey(it):
    return it[4] if len(it) > 4 else (0, it[2])


CI = 'http://www.w3.org/2005/xpath-functions/collation/html-ascii-case-insensitive'
NUMERIC = [i for i, it in enumerate(ITEMS) if it[2] is not None]
INTS = [i for i, it in enumerate(ITEMS) if it[1][0] == 'int']
ALL = list(range(len(ITEMS)))

# name -> (xpath key function or None, python key, allowed item indexes)
KEYS = {
    'string': ("function($x) { string($x) }", lambda it: it[3], ALL),
    'identity-num': ("function($x) { $x }", lambda it: it[2], NUMERIC),
    'negate': ("function($x) { -$x }", lambda it: -it[2], NUMERIC),
    'mod2': ("function($x) { $x mod 2 }", lambda it: it[2] % 2, INTS),
    'strlen': ("function($x) { string-length(string($x)) }", lambda it: len(it[3]), ALL),
    'pair': ("function($x) { ($x mod 2, $x) }", lambda it: (it[2] % 2, it[2]), INTS),
    'is-int': ("function($x) { $x instance of xs:integer }", lambda it: it[1][0] == 'int', ALL),
    'const': ("function($x) { 0 }", lambda it: 0, ALL),
    'none-num': (None, lambda it: it[2], NUMERIC),
    'none-num-x': (None, numkey, NUMERIC_X),
    'identity-num-x': ("function($x) { $x }", numkey, NUMERIC_X),
    'pair-num-x': ("function($x) { (1, $x) }", lambda it: (1, numkey(it)), NUMERIC_X),
    'none-str': (None, lambda it: it[3], STRINGS),
    'identity-str': ("function($x) { $x }", lambda it: it[3], STRINGS),
    'first-char': ("function($x) { substring(string($x), 1, 1) }", lambda it: it[3][:1], ALL),
    # a collation under which different strings are equal: ties must keep their input order
    'ci-collation': (None, lambda it: it[3].lower(), STRINGS, CI),
    'ci-collation-key': ("function($x) { concat($x, '') }", lambda it: it[3].lower(), STRINGS, CI),
    'ci-first-char': ("function($x) { substring($x, 1, 1) }", lambda it: it[3][:1].lower(), STRINGS, CI),
}


def gen_case(rng, tier):
    thorough = tier == 'thorough'
    ops = []
    nsel = 0
    for _ in range(rng.randint(1, 10 if thorough else 5)):
        key = rng.choice(sorted(KEYS))
        allowed = KEYS[key][2]
        n = rng.choice([0, 1, 2, 3, 4, 6, 8])
        seq = [rng.choice(allowed) for _ in range(n)]
        x = rng.random()
        if x < 0.5 or not nsel:
            ops.append({'op': 'sort', 'key': key, 'seq': seq, 'mode': rng.choice(['literal', 'variable', 'selector'])})
            if ops[-1]['mode'] == 'selector':
                ops[-1]['sel'] = nsel
                nsel += 1
        else:
            ops.append({'op': 'resort', 'sel': rng.randrange(nsel), 'seq': seq})
    return {'config': {}, 'ops': ops}


def run_case(case, world):
    import elementpath
    from elementpath.xpath31 import XPath31Parser
    violations = []
    stats = {'ops': 0, 'sorts': 0, 'items_sorted': 0, 'ties': 0}
    selectors = {}
    values = {}

    def value_of(i):
        if i not in values:
            values[i] = XPath31Parser().parse(ITEMS[i][0]).evaluate(elementpath.XPathContext(None, item=1))
        return values[i]

    def violate(cls, signature, detail, features=()):
        violations.append({'cls': cls, 'signature': signature, 'detail': detail, 'features': sorted(set(features))})

    for idx, op in enumerate(case['ops']):
        stats['ops'] += 1
        if op['op'] == 'resort':
            ent = selectors.get(op['sel'])
            if ent is None:
                continue
            key, sel = ent
            seq = [i for i in op['seq'] if i in KEYS[key][2]]
            mode = 'selector-reused'
        else:
            key = op['key']
            seq = [i for i in op['seq'] if i in KEYS[key][2]]
            mode = op['mode']
        kx, kpy = KEYS[key][0], KEYS[key][1]
        coll = "'%s'" % KEYS[key][3] if len(KEYS[key]) > 3 else '()'
        items = [ITEMS[i] for i in seq]
        order = sorted(range(len(items)), key=lambda j: kpy(items[j]))          # Python's sort is stable
        expected = [items[j][1] for j in order]
        stats['sorts'] += 1
        stats['items_sorted'] += len(items)
        keys_ = [kpy(it) for it in items]
        stats['ties'] += len(keys_) - len(set(map(repr, keys_)))
        feats = ['key:' + key, 'mode:' + mode]
        if len(set(repr(it[2]) for it in items if it[2] is not None)) < len([it for it in items if it[2] is not None]):
            feats.append('python-equal-items-of-different-type')
        lit = '(' + ', '.join(it[0] for it in items) + ')'
        try:
            if mode == 'literal':
                text = 'sort(%s, %s, %s)' % (lit, coll, kx) if kx else (
                    'sort(%s)' % lit if coll == '()' else 'sort(%s, %s)' % (lit, coll))
                res = elementpath.select(None, text, parser=XPath31Parser, item=1)
            else:
                text = 'sort($s, %s, %s)' % (coll, kx) if kx else ('sort($s)' if coll == '()' else 'sort($s, %s)' % coll)
                if mode == 'selector':
                    sel = elementpath.Selector(text, parser=XPath31Parser)
                    selectors[op['sel']] = (key, sel)
                elif mode == 'variable':
                    sel = elementpath.Selector(text, parser=XPath31Parser)
                res = sel.select(None, item=1, variables={'s': [value_of(i) for i in seq]})
                text += ' with $s := ' + lit
            got = [canon(x) for x in (res if isinstance(res, list) else [res])]
        except Exception as e:
            world.event(('error', idx, canon_exc(e)))
            if is_ep_error(e):
                violate('SORT', 'sort-raised:%s' % key, '%s raised %r, expected %r' % (text, canon_exc(e), expected), feats)
            continue
        world.event(('sorted', idx, got))
        if got != expected:
            if sorted(map(repr, got)) != sorted(map(repr, expected)):
                what = 'not-a-permutation'
            elif [kpy(it) for it in _lookup(got)] != sorted(kpy(it) for it in items):
                what = 'not-ordered-by-key'
            else:
                what = 'not-stable'
            violate('SORT', 'sort-%s:%s' % (what, key), '%s gave %r, a stable sort by the key gives %r' % (text, got, expected), feats)
    nontrivial = []
    if stats['items_sorted'] >= 3:
        nontrivial = [hashlib.sha256(repr(case['ops']).encode()).hexdigest()[:16]]
    return {'violations': violations, 'stats': stats, 'nontrivial': nontrivial}


def _lookup(canons):
    out = []
    for c in canons:
        for it in ITEMS:
            if it[1] == c:
                out.append(it)
                break
        else:
            out.append((None, c, Fraction(-999), '?', (-9, 0)))
    return out


def simplify(case):
    for i, op in enumerate(case['ops']):
        if len(op.get('seq', ())) > 1:
            for j in range(len(op['seq'])):
                ops = list(case['ops'])
                ops[i] = dict(op, seq=op['seq'][:j] + op['seq'][j + 1:])
                yield dict(case, ops=ops)
