"""Small random XML documents (as text) and expression grammars over them."""

TAGS = ['a', 'b', 'c', 'd']
ATTRS = ['x', 'n', 'id']
TEXTS = ['1', '2', '3', 'x', 'y', ' 4 ', '', 'alpha', '2000-01-01', '10.5']
NS = 'http://example.com/ns'


def gen_xml(rng, max_nodes=24, with_ns=None):
    """Returns XML text. Root is <r>; children a/b/c/d with attributes, text, tails, comments, PIs."""
    if with_ns is None:
        with_ns = rng.random() < 0.25
    budget = [rng.randint(3, max_nodes)]

    def elem(depth):
        budget[0] -= 1
        tag = rng.choice(TAGS)
        if with_ns and rng.random() < 0.4:
            tag = 'p:' + tag
        attrs = ''
        for a in ATTRS:
            if rng.random() < 0.35:
                attrs += ' %s="%s"' % (a, rng.choice(TEXTS).strip() or '0')
        inner = ''
        if rng.random() < 0.6:
            inner += rng.choice(TEXTS)
        while budget[0] > 0 and depth < 4 and rng.random() < 0.55:
            k = rng.random()
            if k < 0.08:
                inner += '<!--c%d-->' % rng.randint(0, 9)
            elif k < 0.14:
                inner += '<?pi%d data?>' % rng.randint(0, 3)
            else:
                inner += elem(depth + 1)
            if rng.random() < 0.3:
                inner += rng.choice(TEXTS)
        return '<%s%s>%s</%s>' % (tag, attrs, inner, tag)

    body = ''
    while budget[0] > 0:
        body += elem(1)
        if rng.random() < 0.2:
            body += rng.choice(TEXTS)
    nsdecl = ' xmlns:p="%s"' % NS if with_ns else ''
    return '<r%s>%s</r>' % (nsdecl, body)


PATHS = [
    '//a', '//b', '/r/a', '/r/*', '//a/@x', '//*/@n', '//c/text()', '//a[1]', '(//b)[last()]', '//a[@x]',
    '//*[@n = "1"]', '//a/..', '//b/following-sibling::*', '//c/preceding::a', '//a/ancestor-or-self::*',
    '//a/descendant::*', '/r/*[2]', '//comment()', '//processing-instruction()', '//text()[normalize-space()]',
    '/', '/r', '.', '//d/parent::*', '//*[last()]', '//a | //b', '//*[self::a or self::c]', '//a//b',
]

SCALARS = [
    'count(//a)', 'count(//*)', 'string(/r)', 'string((//a)[1])', 'sum(//*/@n[. castable as xs:double])',
    'string-join(//a/@x, ",")', 'name((//*)[2])', 'local-name(/r/*[1])', 'normalize-space(string((//b)[1]))',
    'string-length(string(/r))', 'boolean(//c)', 'not(//d)', 'count(//a/following::*)', 'count(//@*)',
    'exists(//a[@x = "1"])', 'string((//@x)[1])', 'number((//@n)[1])', 'count(distinct-values(//*/name()))',
]

XP2 = [
    "matches('b', '[\\p{Ll}-[a-f]]')", "matches('b', '\\p{Ll}')", "matches('3', '[\\p{Nd}-[0-4]]')", "matches('3', '^\\d$')",
    "replace('a1B2', '[\\w-[\\d]]', '.')", "matches('é', '[\\p{IsLatin-1Supplement}-[é]]')",
    'for $e in //a return name($e)', 'for $e in //* return count($e/*)', 'some $e in //a satisfies $e/@x',
    'every $e in //b satisfies $e/text()', 'if (//c) then //c[1] else //a[1]', '//a except //a[@x]',
    '//a intersect //*[@x]', 'reverse(//*)', 'subsequence(//*, 2, 3)', 'index-of(//*/name(), "a")',
    'data(//@n)', 'root((//a)[1])', 'string-join(for $e in //* return name($e), "/")',
    'insert-before(//a, 1, //b)', 'remove(//*, 1)', '(//a, //b)[position() < 3]', 'for $i in 1 to 3 return //*[$i]',
    'distinct-values(//@x)', 'deep-equal(//a, //a)', '(//a)[1] is (//*)[2]', '(//a)[1] << (//b)[1]',
]

XP3 = [
    '//a ! name(.)', '//* ! count(*)', 'let $n := count(//a) return $n + 1', 'let $x := //a return ($x, $x)[2]',
    'for-each(//a, function($e) { name($e) })', 'filter(//*, function($e) { exists($e/@x) })',
    'fold-left(//*, 0, function($acc, $e) { $acc + count($e/@*) })', 'path((//a)[1])', 'head(//b)', 'tail(//*)',
    'innermost(//*)', 'outermost(//a)', 'string-join(//a/@x ! string(.), "-")', 'has-children(/r)',
    'serialize((//a)[1])', 'generate-id((//a)[1]) = generate-id((//a)[1])',
    'let $f := function($e) { $e/@x } return //a ! $f(.)', 'sort(//*/name())',
    'map { "n": count(//a), "first": string((//a)[1]) }', '[ //a/@x ! string(.) ]', 'array:size([//a, //b])',
    'map:keys(map:merge(for $e in //* return map:entry(name($e), 1)))', 'parse-xml("<z>1</z>")/z',
    # built-in functions that depend on the dynamic context beyond their arguments, called through the arrow operator
    # (the function token of the expression is the one that is called)
    'xs:dateTime("2000-01-01T12:00:00") => adjust-dateTime-to-timezone() => string()',
    '"2000-06-01" => xs:date() => adjust-date-to-timezone() => string()',
    'xs:time("12:00:00") => adjust-time-to-timezone() => string()', '(//*)[last()]/("en" => lang())',
    '(//a)[1] => root() => count()', '"a" => id() => count()', '//* ! (name(.) => concat("@", position(), "/", last()))',
    'xs:dateTime("2000-01-01T12:00:00") => string() => xs:dateTime() => timezone-from-dateTime() => empty()',
    '(//*)[2] ! ("|" => contains-token(name(.))) ', 'xs:dateTime("2000-01-01T12:00:00") = (xs:dateTime("2000-01-01T12:00:00Z") => adjust-dateTime-to-timezone(()))',
]

# expressions whose value is (a sequence of) function items: the items are called later, after other evaluations
FN_EXPRS = [
    "for-each(('k'), map{'k': count(//*)})", "filter(('k', 'j'), map{'k': exists(//a), 'j': exists(//zz)})",
    "apply(map{'k': string-join(//*/name(), ',')}, ['k'])", "for-each((1, 2), [count(//a), count(//*)])", "map{'k': count(//*)}('k')",
    "for-each(('k'), map{'k': $i})", "(1, 2) ! [count(//a), $i](.)",
    'let $n := count(//a) return function($x) { $x + $n }', 'for $e in //a return function() { name($e) }',
    'function($x) { $x + $i }', 'let $k := $i return function() { $k }', '//* ! function() { count(*) }',
    'for $j in 1 to 3 return function($x) { $x * $j }', 'let $f := function($a, $b) { $a * 10 + $b } return ($f(1, ?), $f(2, ?))',
    'let $s := string-join(//a/@x, ",") return function() { $s }', 'function() { count(//*) }',
]

# a binder whose result generator is abandoned early, followed by a read of the same name from the caller's variables;
# serialisation with parameters (the input tree must stay as it is)
ABANDON_EXPRS = [
    '(exists(for $i in (10, 20, 30) return $i), $i)', '(head(for $i in 1 to 3 return $i * 2), $i)',
    '(some $s in ("x", "y") satisfies $s = "x", $s)', '(boolean(for $d in (1, 2) return $d), $d)',
    '((for $i in 1 to 5 return $i)[1], $i)', '(empty(for $s in //a return $s), $s)',
    '(every $i in (1, 2, 3) satisfies $i lt 2, $i)', '(subsequence(for $i in 1 to 9 return $i, 1, 1), $i)',
    '(let $i := 7 return $i, $i)', '(//a ! (let $s := name(.) return $s))[1], $s',
]
SERIALIZE_EXPRS = [
    'serialize(//a, map{"standalone": true()})', 'serialize(/r, map{"method": "xml", "indent": true()})',
    'serialize(/r, map{"omit-xml-declaration": false(), "standalone": false()})', 'serialize(//b, map{"method": "text"})',
    'serialize((//a)[1], map{"method": "html"})', 'serialize(//*[1], map{"standalone": ()})',
    'serialize(/r/*, map{"item-separator": "|", "omit-xml-declaration": true()})', 'serialize(//c)',
    'string-length(serialize(/r, map{"standalone": true(), "indent": false()}))',
]

VAR_EXPRS = [
    '$i + 1', '$i * $d', '$s', 'concat($s, "-", $u)', '$u + 1', '$u = "12"', '($i, $d, $s)', 'string($u)',
    '$dt', 'string($dt)', '$dt + $dur', '$dt - $dt2', '$dt lt $dt2', '$dt eq $dt2', '$date + $dur',
    '$date = $date2', '$time lt $time2', '$time', 'hours-from-dateTime($dt)', 'timezone-from-dateTime($dt)',
    'adjust-dateTime-to-timezone($dt)', 'adjust-dateTime-to-timezone($dt, ())', 'xs:date($dt)',
    'min(($dt, $dt2))', 'max(($date, $date2))', '$dt2 - $dt', 'year-from-date($date)', 'implicit-timezone()',
    'current-dateTime()', 'current-date()', 'current-time() = current-time()', '$dt = current-dateTime()',
    'for $x in ($dt, $dt2) return string($x)', '$seq[2]', 'count($seq)', 'sum($seq)', '$seq ! (. + $i)',
    '$dt + ($dt2 - $dt)', 'xs:dateTime("2001-01-01T00:00:00") - $dt', '$dt gt xs:dateTime("2000-06-01T12:00:00Z")',
    'dateTime($date, $time)', '$time - $time2', '$date - $date2', 'seconds-from-time($time)',
    'adjust-time-to-timezone($time)', 'adjust-date-to-timezone($date)', '$node', 'name($node)', '$node/@x',
    'count($node/*)', '$node is (//*)[1]', 'string($node)', '$nodes[1]', 'count($nodes)',
]

FAILING = [
    '(//a, error())', 'for $x in (1, 2, 0) return 10 idiv $x', 'xs:integer($s)', '//a/@x + 1', '$dt + 1',
    '(1, 2, xs:date("x"))', 'for $e in //* return name($e) + 1', 'exactly-one(//*)', '$undefined',
    'for-each((1, 2, "x"), function($v) { $v + 1 })', '(//a ! name(.), 1 div 0)', 'zero-or-one((1, 2))',
]

VARIABLE_SPECS = {
    'i': [['int', '5'], ['int', '-3'], ['int', '0']],
    'd': [['Decimal', '1.5'], ['float', '2.5'], ['int', '2']],
    's': [['str', 'abc'], ['str', '12'], ['str', '']],
    'u': [['UntypedAtomic', '12'], ['UntypedAtomic', '7']],
    'dt': [['DateTime10', '2000-01-01T12:00:00'], ['DateTime10', '2000-06-01T12:00:00+02:00'],
           ['DateTime10', '1999-12-31T23:59:59Z']],
    'dt2': [['DateTime10', '2000-01-02T00:00:00'], ['DateTime10', '2000-01-01T12:00:00-05:00']],
    'dur': [['DayTimeDuration', 'PT1H'], ['DayTimeDuration', 'P1DT2H'], ['DayTimeDuration', '-PT30M']],
    'date': [['Date10', '2000-02-28'], ['Date10', '2000-03-01Z']],
    'date2': [['Date10', '2000-02-28'], ['Date10', '2000-02-29+01:00']],
    'time': [['Time', '10:00:00'], ['Time', '23:30:00Z']],
    'time2': [['Time', '10:00:00'], ['Time', '09:00:00-01:00']],
    'seq': [['list', [['int', '1'], ['int', '2'], ['int', '3']]], ['list', []],
            ['list', [['DateTime10', '2000-01-01T00:00:00'], ['int', '1']]]],
    # arguments that an implementation is tempted to memoise per call site (patterns, flags, pictures, options)
    's2': [['str', 'Alpha beta ALPHA'], ['str', 'a.c abc ABC'], ['str', 'x']],
    'pat': [['str', 'alpha'], ['str', 'a.c'], ['str', '[a-c]+'], ['str', 'A']],
    'flags': [['str', ''], ['str', 'i'], ['str', 'q'], ['str', 's']],
    'rep': [['str', '-'], ['str', '[$0]'], ['str', '']],
    'pic': [['str', '0.0'], ['str', '#,##0.00'], ['str', '0%']],
    'ipic': [['str', '1'], ['str', 'a'], ['str', 'I'], ['str', 'w']],
    'dpic': [['str', '[Y]-[M01]'], ['str', '[D] [MNn]'], ['str', '[H]:[m]']],
    'form': [['str', 'NFC'], ['str', 'NFKD'], ['str', '']],
    'coll': [['str', 'http://www.w3.org/2005/xpath-functions/collation/codepoint'],
             ['str', 'http://www.w3.org/2005/xpath-functions/collation/html-ascii-case-insensitive']],
    'dup': [['str', 'combine'], ['str', 'use-first'], ['str', 'use-last']],
    'seq2': [['list', [['int', '7'], ['int', '8']]], ['list', [['str', 'p'], ['str', 'q'], ['str', 'r']]]],
}

PARAM_EXPRS = [
    'matches($s2, $pat, $flags)', 'replace($s2, $pat, $rep, $flags)', 'tokenize($s2, $pat, $flags)',
    'count(tokenize($s2, $pat))', '//*[matches(name(), $pat, $flags)]/name()', 'matches($s2, $pat)',
    'for $w in tokenize($s2, " ") return matches($w, $pat, $flags)', 'format-number($d, $pic)',
    'format-integer($i, $ipic)', 'format-dateTime($dt, $dpic)', 'normalize-unicode($s2, $form)',
    'compare($s2, "ALPHA BETA ALPHA", $coll)', 'contains($s2, "ALPHA", $coll)', 'translate($s2, $pat, "xyz")',
    'round-half-to-even($d, $i)', 'substring($s2, $i)', 'string-join(("a", "b"), $s)', 'index-of($seq, $i)',
    'distinct-values(($s2, upper-case($s2)), $coll)', 'starts-with($s2, "alpha", $coll)',
    'map:merge((map{"k": $seq2}, map{"k": $i}), map{"duplicates": $dup})?k',
    'let $m := map{"k": $seq2} return (map:merge(($m, map{"k": 9}), map{"duplicates": $dup})?k, $m?k)',
    'map:merge((map{"k": $seq2}, map{"k": $seq}), map{"duplicates": "combine"})?k',
    'array:join(([$seq2], [$i]))?*', 'array:flatten([$seq2, [$seq]])', 'array:sort([$seq2, $i])?*',
    'sort($seq2, $coll)', 'analyze-string($s2, $pat, $flags)//text()', 'replace($s2, $pat, $rep)',
]


def make_value(spec):
    """Typed lexical form -> Python value accepted by elementpath as a variable value."""
    import decimal
    from elementpath import datatypes as dt
    t, v = spec
    if t == 'int':
        return int(v)
    if t == 'float':
        return float(v)
    if t == 'Decimal':
        return decimal.Decimal(v)
    if t == 'str':
        return v
    if t == 'list':
        return [make_value(x) for x in v]
    if t == 'UntypedAtomic':
        return dt.UntypedAtomic(v)
    cls = getattr(dt, t)
    return cls.fromstring(v)
