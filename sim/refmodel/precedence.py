"""
Operator tables transcribed from the XPath 1.0 / 2.0 / 3.0 / 3.1 EBNF, a random generator of
operator trees, a renderer that inserts exactly the parentheses the grammar requires (plus
optional redundant ones), and the expected token tree in elementpath's `tree` notation.

Because the text is produced from the tree by the grammar's own precedence/associativity rules,
"the parser groups operands as the EBNF prescribes" is equivalent to "parse(text).tree equals the
tree the text was rendered from".
"""

from decimal import Decimal

# level numbers: higher binds tighter. kind: 'left' | 'nonassoc' | 'prefix' | 'type' | 'path' | 'postfix'
COMPARISONS = ['=', '!=', '<', '<=', '>', '>=', 'eq', 'ne', 'lt', 'le', 'gt', 'ge', 'is', '<<', '>>']


def table(version):
    if version == '1.0':
        return {
            'or': (1, 'left'), 'and': (2, 'left'),
            '=': (3, 'left'), '!=': (3, 'left'),
            '<': (4, 'left'), '<=': (4, 'left'), '>': (4, 'left'), '>=': (4, 'left'),
            '+': (6, 'left'), '-': (6, 'left'),
            '*': (7, 'left'), 'div': (7, 'left'), 'mod': (7, 'left'),
            'neg': (8, 'prefix'),
            '|': (9, 'left'),
            '/': (16, 'path'), '//': (16, 'path'),
            '[': (17, 'postfix'),
        }
    t = {'or': (1, 'left'), 'and': (2, 'left')}
    for c in COMPARISONS:
        t[c] = (3, 'nonassoc')
    t.update({
        'to': (5, 'nonassoc'),
        '+': (6, 'left'), '-': (6, 'left'),
        '*': (7, 'left'), 'div': (7, 'left'), 'idiv': (7, 'left'), 'mod': (7, 'left'),
        'union': (8, 'left'), '|': (8, 'left'),
        'intersect': (9, 'left'), 'except': (9, 'left'),
        'instance': (10, 'type'), 'treat': (11, 'type'), 'castable': (12, 'type'), 'cast': (13, 'type'),
        'neg': (14, 'prefix'), 'pos': (14, 'prefix'),
        '/': (16, 'path'), '//': (16, 'path'),
        '[': (17, 'postfix'),
    })
    if version >= '3.0':
        t['||'] = (4, 'left')
        t['!'] = (15, 'left')
    return t


ATOM_LEVEL = 18
TYPES = ['xs:integer', 'xs:string', 'xs:double', 'xs:decimal']
TYPE_KEYWORDS = {'instance': 'instance of', 'treat': 'treat as', 'castable': 'castable as', 'cast': 'cast as'}


def level(node, tbl):
    t = node[0]
    if t in ('num', 'name', 'var', 'svar', 'str', 'lit', 'kind', 'pname', 'ulookup', 'dot', 'call', 'paren', 'root', 'parent'):
        return ATOM_LEVEL
    if t == 'un':
        return tbl['neg'][0]
    if t in ('pred', 'lookup'):
        return tbl['['][0]
    return tbl[node[1]][0]          # ('bin', op, l, r) / ('type', op, e, typename)


def gen_tree(rng, version, depth, want='any', level_hint=None):
    """Random operator tree. want: 'any' | 'step' (something usable as a path step)."""
    tbl = table(version)
    if depth <= 0 or rng.random() < 0.25:
        return gen_atom(rng, version, want)
    if want == 'step':
        k = rng.random()
        if k < 0.5:
            return gen_atom(rng, version, 'step')
        return ['pred', gen_atom(rng, version, 'step'), gen_tree(rng, version, depth - 1)]
    ops = [o for o in tbl if o not in ('neg', 'pos', '[')]
    k = rng.random()
    if k < 0.12:
        return ['un', rng.choice(['-', '+'] if version != '1.0' else ['-']), gen_tree(rng, version, depth - 1)]
    if k < 0.2:
        return ['pred', gen_atom(rng, version, 'step'), gen_tree(rng, version, depth - 1)]
    if version == '3.1' and k < 0.24:
        # postfix lookup: same level as predicates
        base = rng.choice([['var', rng.choice('vw')], ['name', _name(rng)], gen_tree(rng, version, depth - 1)])
        return ['lookup', base, rng.choice(['k', 'j', '1', '*'])]
    if k < 0.25 and depth > 1:
        return ['call', rng.choice(['boolean', 'not', 'count', 'string']), gen_tree(rng, version, depth - 1)]
    op = rng.choice(ops)
    if level_hint is not None and rng.random() < 0.35:
        same = [o for o in ops if tbl[o][0] == level_hint]
        if same:
            op = rng.choice(same)       # stress associativity: a child on the same precedence level as its parent
    kind = tbl[op][1]
    if kind == 'type':
        return ['type', op, gen_tree(rng, version, depth - 1), rng.choice(TYPES)]
    if kind == 'path':
        return ['bin', op, gen_tree(rng, version, depth - 1, 'step' if rng.random() < 0.7 else 'any'),
                gen_tree(rng, version, depth - 1, 'step')]
    return ['bin', op, gen_tree(rng, version, depth - 1, level_hint=tbl[op][0]),
            gen_tree(rng, version, depth - 1, level_hint=tbl[op][0])]


def _lit(text, value):
    return ['lit', text, '(%r)' % (value,)]


# literals whose `source` needs care: decimals without fraction digits or with many, quotes inside strings, doubles
LITERALS_ANY = [_lit('12.', Decimal('12')), _lit('.5', Decimal('.5')), _lit('1.50', Decimal('1.50')),
                _lit('0.00000001', Decimal('0.00000001')), _lit('123456789012345678901234.5', Decimal('123456789012345678901234.5')),
                _lit('\'a"b\'', 'a"b'), _lit('"it\'s"', "it's"), _lit("'a b'", 'a b')]
LITERALS_2 = [_lit("'it''s'", "it's"), _lit('"q""r"', 'q"r'), _lit("'x''\"y'", 'x\'"y'), _lit("'a\nb'", 'a\nb'),
              _lit('1e0', 1.0), _lit('2.5E-3', 0.0025), _lit('1e2', 100.0), _lit('1.5e300', 1.5e300),
              _lit('.5e1', 5.0), _lit('.25E-2', 0.0025), _lit('5.e1', 50.0), _lit('1.5e+300', 1.5e300)]


KEYWORD_PREFIXES = ['p', 'div', 'and', 'or', 'mod', 'eq', 'to', 'union', 'is', 'idiv', 'except', 'lt', 'if', 'for', 'some', 'every',
                    'let', 'instance', 'treat', 'cast', 'castable', 'return', 'in']
NAMESPACES = {k: 'http://example.com/ns/' + k for k in KEYWORD_PREFIXES}


# element names: mostly one letter; sometimes a name that starts with an operator keyword followed by '.', '-' or '_'
# (one NCName for every XPath version)
KEYWORDISH_NAMES = ['to.x', 'div.class', 'if.a', 'or-b', 'and.x', 'is.valid', 'eq-1', 'in.stock', 'mod_1', 'union.x', 'return.y',
                    'idiv-x', 'div-x', 'or.x', 'ne.a', 'lt-b', 'then.a', 'else-b', 'for.each', 'some.x', 'cast.as', 'instance.of',
                    'intersect.x', 'except-y', 'satisfies.z', 'mod.x', 'and-also']


def _name(rng):
    if rng.random() < 0.12:
        return rng.choice(KEYWORDISH_NAMES)
    return rng.choice('abc')


def gen_atom(rng, version, want='any'):
    if rng.random() < 0.05:
        # a prefixed name whose prefix is spelled like an operator keyword is still a name test
        return ['pname', rng.choice(KEYWORD_PREFIXES), rng.choice(['a', 'b', 'div', 'x'])]
    if want == 'step':
        return rng.choice([['name', _name(rng)], ['name', _name(rng)], ['dot'], ['kind', rng.choice(['node', 'text'])]])
    if rng.random() < 0.08:
        return list(rng.choice(LITERALS_ANY + (LITERALS_2 if version != '1.0' else [])))
    if version == '3.1' and rng.random() < 0.06:
        return ['ulookup', rng.choice(['k', 'j', '1', '*'])]     # unary lookup: a primary expression
    k = rng.random()
    if k < 0.45:
        return ['num', rng.randint(0, 9)]
    if k < 0.7:
        return ['name', _name(rng)]
    if k < 0.8:
        if version != '1.0' and rng.random() < 0.25:
            # '$' and the name are two tokens from XPath 2.0 on (spaces and comments may separate them); names that are
            # also function names or keywords
            return ['svar', rng.choice(['v', 'w', 'count', 'string', 'if', 'not', 'map', 'position'])]
        return ['var', rng.choice(['v', 'w', 'v', 'w', 'div', 'to', 'eq', 'in', 'return', 'and', 'if', 'for'])]
    if k < 0.88:
        return ['str', rng.choice(['s', 't', ''])]
    if k < 0.93:
        return ['root']
    if k < 0.96:
        return ['parent']
    return ['dot']


def need_parens(child, parent, side, tbl, version):
    """Does the grammar require parentheses around child at this position of parent?"""
    cl = level(child, tbl)
    t = parent[0]
    if t == 'bin':
        pl, kind = tbl[parent[1]]
        if kind == 'left':
            need = pl if side == 'L' else pl + 1
        elif kind == 'nonassoc':
            need = pl + 1
        elif kind == 'path':
            # E1/E2: E1 is a relative path (same level), E2 a step (postfix expression or axis step)
            need = pl if side == 'L' else tbl['['][0]
            if side == 'R' and child[0] in ('num', 'str', 'lit', 'var', 'svar', 'call', 'ulookup'):
                return False        # primary expressions are steps
        else:
            need = pl + 1
        # comparisons and other operators whose level numbers skip values: compare on levels present
        return cl < need
    if t == 'type':
        return cl < tbl[parent[1]][0] + 1
    if t == 'un':
        ul = tbl['neg'][0]
        if version == '1.0':
            return cl < ul            # UnaryExpr ::= UnionExpr | '-' UnaryExpr
        return cl < ul                # ("-" | "+")* ValueExpr ; a nested unary is the same production
    if t == 'pred':
        if side == 'L':
            return cl < tbl['['][0] or child[0] in ('num', 'str') and False
        return False
    if t == 'lookup':
        return cl < tbl['['][0]
    if t == 'call':
        return False
    return False


def tokens(node, tbl, version, rng=None, redundant=0.0):
    """Token list for node with the parentheses the grammar requires (and random redundant ones)."""
    t = node[0]

    def sub(child, parent, side):
        toks = tokens(child, tbl, version, rng, redundant)
        extra_ok = True
        if version == '1.0' and (parent[0] == 'pred' or (parent[0] == 'bin' and tbl[parent[1]][1] == 'path' and side == 'R')):
            # XPath 1.0: the right operand of '/' is a Step, and '(b)[1]' is a FilterExpr, not a Step: parentheses
            # that the tree does not require would change the grammatical category there
            extra_ok = False
        if need_parens(child, parent, side, tbl, version) or (extra_ok and rng is not None and rng.random() < redundant):
            return ['('] + toks + [')']
        return toks

    if t == 'num':
        return [str(node[1])]
    if t == 'name':
        return [node[1]]
    if t == 'var':
        return ['$' + node[1]]
    if t == 'svar':
        return ['$', node[1]]
    if t == 'str':
        return ["'%s'" % node[1]]
    if t == 'lit':
        return [node[1]]
    if t == 'kind':
        return [node[1], '(', ')']
    if t == 'pname':
        return ['%s:%s' % (node[1], node[2])]
    if t == 'dot':
        return ['.']
    if t == 'root':
        return ['(', '/', ')']          # leading-lone-slash constraint: as an operand it is parenthesised
    if t == 'parent':
        return ['..']
    if t == 'un':
        return [node[1]] + sub(node[2], node, 'R')
    if t == 'bin':
        return sub(node[2], node, 'L') + [node[1]] + sub(node[3], node, 'R')
    if t == 'type':
        return sub(node[2], node, 'L') + TYPE_KEYWORDS[node[1]].split() + [node[3]]
    if t == 'pred':
        return sub(node[1], node, 'L') + ['['] + tokens(node[2], tbl, version, rng, redundant) + [']']
    if t == 'lookup':
        return sub(node[1], node, 'L') + ['?', node[2]]
    if t == 'ulookup':
        return ['?', node[1]]
    if t == 'call':
        return [node[1], '('] + tokens(node[2], tbl, version, rng, redundant) + [')']
    raise ValueError(t)


def expected_tree(node):
    """elementpath's `tree` notation (parentheses are transparent there)."""
    t = node[0]
    if t == 'num':
        return '(%d)' % node[1]
    if t == 'name':
        return '(%s)' % node[1]
    if t in ('var', 'svar'):
        return '($ (%s))' % node[1]
    if t == 'str':
        return "('%s')" % node[1]
    if t == 'lit':
        return node[2]
    if t == 'kind':
        return '(%s)' % node[1]
    if t == 'pname':
        return '(: (%s) (%s))' % (node[1], node[2])
    if t == 'dot':
        return '(.)'
    if t == 'root':
        return '(/)'
    if t == 'parent':
        return '(..)'
    if t == 'un':
        return '(%s %s)' % (node[1], expected_tree(node[2]))
    if t == 'bin':
        return '(%s %s %s)' % (node[1], expected_tree(node[2]), expected_tree(node[3]))
    if t == 'type':
        pfx, local = node[3].split(':')
        return '(%s %s (: (%s) (%s)))' % (node[1], expected_tree(node[2]), pfx, local)
    if t == 'pred':
        return '([ %s %s)' % (expected_tree(node[1]), expected_tree(node[2]))
    if t == 'lookup':
        return '(? %s (%s))' % (expected_tree(node[1]), node[2])
    if t == 'ulookup':
        return '(? (%s))' % node[1]
    if t == 'call':
        return '(%s %s)' % (node[1], expected_tree(node[2]))
    raise ValueError(t)


SAFE_TIGHT = {'(', ')', '[', ']', ',', '/', '//', '|', '=', '!=', '||', '{', '}', ':=', '=>', '!', '::', '@'}
WORDS = {'or', 'and', 'div', 'idiv', 'mod', 'to', 'union', 'intersect', 'except', 'eq', 'ne', 'lt', 'le', 'gt', 'ge',
         'is', 'instance', 'of', 'treat', 'as', 'castable', 'cast'}


def layout(toks, rng, version, mode):
    """Join tokens. mode 'canon': single spaces. mode 'varied': random whitespace, removed spaces around
    punctuation where that cannot change tokenisation, and (2.0+) nested comments."""
    if mode == 'canon':
        return ' '.join(toks)
    parts = layout_parts(toks, rng, version)
    return ''.join(parts)


def layout_parts(toks, rng, version):
    """[lead, tok0, sep1, tok1, ..., trail] for the varied layout (separators at odd positions after lead)."""
    out = []
    for i, tk in enumerate(toks):
        if i:
            prev = toks[i - 1]
            tight_ok = (tk in SAFE_TIGHT or prev in SAFE_TIGHT) and not (prev in ('/', '//') and tk in ('/', '//')) \
                and not (prev == '/' and tk == '*') and not (prev in ('<', '>') or tk in ('<', '>'))
            if prev == '(' and tk.startswith(':'):
                tight_ok = False
            k = rng.random()
            if tight_ok and k < 0.4:
                sep = ''
            elif k < 0.7:
                sep = ' '
            elif k < 0.85:
                sep = rng.choice(['  ', '\t', '\n', ' \n ', '\r\n', '\r', '\r', ' \r'])
            elif version != '1.0':
                pieces = [rng.choice([' (: c :) ', '(: x (: nested :) y :)', ' (::) ', '\n(: a\nb :)\n', '(: c :)',
                                      '(: a (: b :) c (: d :) e :)', '(:(::)(::):)', '(: (: (: deep :) :) (: x :) :)',
                                      "(: it's :)", '(: say "hi :)', '(: x::)', '(:::)', "(: 'a' + \"b\" :)", '(: a:b ::c :)'])
                          for _ in range(rng.choice([1, 1, 2, 3]))]
                sep = rng.choice(['', ' ', '\n', '  ']).join(pieces)
                if not tight_ok:
                    sep = ' ' + sep + ' '
            else:
                sep = ' '
            out.append(sep)
        out.append(tk)
    lead = rng.choice(['', ' ', '\n', '(: lead :)' if version != '1.0' else ' '])
    trail = rng.choice(['', ' ', '\n', ' (: trail :)' if version != '1.0' else ' '])
    return [lead] + out + [trail]


def nonassoc_chains(rng, version):
    """Texts the grammar rejects: a non-associative operator applied twice without parentheses."""
    tbl = table(version)
    non = [o for o, (lv, k) in tbl.items() if k == 'nonassoc']
    typ = [o for o, (lv, k) in tbl.items() if k == 'type']
    out = []
    if non:
        a, b = rng.choice(non), rng.choice(non)
        if tbl[a][0] == tbl[b][0]:
            out.append('1 %s 2 %s 3' % (a, b))
    if typ:
        o = rng.choice(typ)
        kw = TYPE_KEYWORDS[o]
        out.append('1 %s xs:integer %s xs:integer' % (kw, kw))
        lo = rng.choice(typ)
        hi = rng.choice(typ)
        if tbl[lo][0] < tbl[hi][0]:
            # e.g. "1 instance of xs:integer cast as xs:string": the operand of cast is a unary expression
            out.append('1 %s xs:integer %s xs:integer' % (TYPE_KEYWORDS[lo], TYPE_KEYWORDS[hi]))
    return out
