SETUP = "/venv/bin/python -c \"import lxml.etree, xmlschema, sys; sys.path.insert(0, '/repo'); import elementpath\" && /venv/bin/python -m compileall -q sim >/dev/null && chmod +x check"

HOOKS = {
    'guard': 'ELEMENTPATH_VERIF',
    'enable': 'no hook in /repo is needed: the simulator patches locale/threading/urllib/pathlib seams in-process before importing elementpath from the /repo working tree (VERIF_REPO overrides the path)',
    'baseline_off_cmd': 'tools/baseline.py',
    'source_commits': [],
    'add_only': True,
}

NOTES = ("Technique: deterministic simulation with fault injection. One integer (VERIF_SEED) decides every run; "
         "each run is a fork of a pristine template process; violations are minimised (ddmin) into replay files "
         "under replays/<id>/ and replayed with ./check replay <file>. known_findings.json lists recorded and fixed defects.")

CHECKS = [
    {'id': 'C19', 'level': 'fault_enumeration', 'design_ref': 'DESIGN.md section 2, C19; section 5',
     'technique': 'deterministic simulation with fault injection: seeded collation/generator histories with injected setlocale failures over stub locale+lock seams; real threads under a seeded baton scheduler (pre-emption at every line event) judged by evaluation-level serialisability; environment sentinels and entity documents',
     'text': 'Three arms. (a) histories of collation evaluations and interleaved, closed, abandoned lazy generators under per-run installed-locale sets and injected locale.Error faults: after every operation the lock/locale/decimal/environ invariants and a pristine-process differential are checked, a fault-free recovery probe ends each run. (b) 2-4 real threads evaluating independent Selectors under a seeded baton scheduler (uniform, PCT and seam-biased strategies): every result vector must be explained by some sequential order of the whole evaluations (enumerated in pristine processes), and nothing may stay locked, switched or blocked. (c) planted environment sentinels must never be observable with default settings and XML texts declaring entities (also behind comments/PIs/BOM) must be rejected, never expanded. Seeded sampling, not proof.',
     'note': 'Trusts the stub locale database (orderings are not glibc), Python-line pre-emption granularity (races inside C code are out of reach), the canonical result form.'},
    {'id': 'C15', 'level': 'exploration', 'design_ref': 'DESIGN.md section 2, C15',
     'technique': 'deterministic simulation: seeded operation histories over a pool of aliasing map/array values, persistent reference model, re-observation of every pool member after every operation',
     'text': 'Seeded histories of map:*/array:* functions, constructors and lookups over a pool of values that alias each other (results re-enter the pool as the same objects and are passed back through variables). After every operation the result, observed through the public functions, is compared with a persistent dict/list model and every pool member is re-observed for immutability; failing operations are part of the histories.',
     'note': 'Trusts the reference model (same-key relation by exact numeric value / code points / type+value) and compares map keys by same-key class rather than representation.'},
    {'id': 'C16', 'level': 'exploration', 'design_ref': 'DESIGN.md section 2, C16; section 5',
     'technique': 'deterministic simulation: seeded call histories (order, multiplicity, nesting, cross-evaluation, Python-level calls) on function items judged by a reference interpreter with immutable closures; stable-sort histories on reused sort expressions',
     'text': 'Typed random programs over a mini-language create function items inside let/for scopes, store them in sequences/arrays/maps, apply them partially (inline, named and built-in functions, partial applications applied again) and pass them to the higher-order functions; Selectors producing function items are evaluated repeatedly under different bindings and the items are called later from Python; named references to focus-dependent functions are called after the focus moved on. Every value is compared with a reference interpreter in which closures are immutable. A second arm checks that fn:sort is a stable ordered permutation on inputs that are equal as Python objects but different XPath values, with key functions and a case-insensitive collation.',
     'note': 'Trusts the reference interpreter (integers, booleans, flat sequences, the listed HOFs); programs are well-typed by construction.'},
    {'id': 'C05', 'level': 'exploration', 'design_ref': 'DESIGN.md section 2, C05',
     'technique': 'deterministic simulation: seeded evaluation histories over shared Selectors/tokens/documents/variable values with interleaved and abandoned generators, failing evaluations, clock and timezone changes; clean-room differential forked from the current process + input snapshots; scoping programs vs reference interpreter',
     'text': 'Histories of select / iter_select / token.evaluate over shared Selectors, tokens, documents (ElementTree, lxml, prebuilt node trees) and caller-owned mutable values. After every operation the result must equal a clean-room evaluation (fresh parse, fresh context, fresh copies of the inputs, forked from the current process), select must equal iter_select, and structural snapshots of all documents, variable values and namespace maps must be unchanged. A second arm checks lexical scoping of for/let/some/every/inline-function parameters against a reference interpreter.',
     'note': 'Trusts the canonical result form (nodes by document index / path) and the structural snapshots; contexts are never reused because the property does not promise that.'},
    {'id': 'C03', 'level': 'fault_enumeration', 'design_ref': 'DESIGN.md section 2, C03',
     'technique': 'deterministic simulation: seeded parse-call histories on pooled parser instances with asynchronous crash points, I/O / locale / recursion-limit fault injection over stub fs/net/locale seams, step-budget hang and lock deadlock verdicts',
     'text': 'Histories of parse / parse+evaluate calls on one parser instance with failures at arbitrary points (syntax errors from mutated, random and deep sources; an injected asynchronous exception at the k-th line event). After every operation the used instance, a fresh instance and a pristine-process reference must agree on a probe set. Every exception leaving the API that is not an ElementPathError is a violation, as is a step-budget overrun (HANG) or a blocked lock (DEADLOCK). Fault arms: per-resource faults of a virtual filesystem/network under fn:json-doc / fn:unparsed-text*, injected setlocale failures under collation functions, reduced recursion limits.',
     'note': 'The for-every-input-string clause is input fuzzing riding on the histories. Step budgets count line events inside elementpath only. Injected crashes are deferred out of finally bodies/__exit__.'},
    {'id': 'C13', 'level': 'exploration', 'design_ref': 'DESIGN.md section 2, C13; section 5',
     'technique': 'deterministic simulation with fault injection: seeded mutation histories on aliasing UnicodeSubset/CharacterClass objects vs a 0x110000-bit bitset model; install_unicode_data histories with simulated download faults and exhaustive table comparison with unicodedata',
     'text': 'Histories of set operations (aimed at the overlap geometries of the current representation, with operands that are other pool members, the object itself or the shared global table objects) are compared bit for bit with a big-integer model; canonical form, extensional equality, len/bool, operand immutability and absence of aliasing are checked for every object after every step. A second arm installs Unicode data versions (also from a simulated URL with failing and torn downloads) and checks the category tables exhaustively against unicodedata, structural invariants and pairwise disjoint blocks for every version, failed-install atomicity and cache invalidation.',
     'note': "Category model is the running interpreter's unicodedata; versions other than the interpreter's are checked structurally only."},
    {'id': 'C04', 'level': 'exploration', 'design_ref': 'DESIGN.md section 2, C04',
     'technique': 'deterministic simulation over the interpreter hash seed: one fresh interpreter per seeded PYTHONHASHSEED processing the same corpus, cross-run equality of token trees/sources/values; EBNF-rendered operator trees, layout invariance and source round trip inside every run',
     'text': 'The simulated dimension is the hash seed the property names: each run is a fresh interpreter with its own PYTHONHASHSEED that builds the four parsers and processes the same seed-derived corpus; token trees, sources, round-trip trees and values must be identical across all interpreters while the tokenizer pattern text may differ (the number of distinct patterns reached is reported). Inside every run the tree must equal the operator tree the text was rendered from by the EBNF precedence/associativity tables, be invariant under whitespace/comment placement, and its source must re-parse to the same tree and value; non-associative chains must be rejected.',
     'note': 'Trusts the transcription of the operator tables; the grouping clauses are schedule-independent and ride along, the cross-seed comparison is what the simulated dimension decides.'},
    {'id': 'C20', 'level': 'exploration', 'design_ref': 'DESIGN.md section 2, C20',
     'technique': 'deterministic simulation: seeded schema attach/detach/swap histories over reused node trees, Selectors and parsers; clean-room differential, schema-processor decode comparison, schema-less node-list comparison',
     'text': 'Generated XSD schemas (built-in simple types, list, union, restriction, simple-content extension), a second schema for the same vocabulary and instances valid against both; histories evaluate data()/instance-of/arithmetic/structural paths on reused trees (ElementTree, lxml, prebuilt node trees) with proxy A, proxy B or none. After every operation the result must equal a clean-room evaluation under the same configuration, typed values must equal what xmlschema decodes and have the datatype class of the declared type, and structural paths must select the same nodes as without a schema.',
     'note': 'Typed values are compared for types with an unambiguous Python mapping; attribute value constraints are not generated (data-model question).'},
]

NOT_APPLICABLE = [
    ('C01', 'node selection is a pure function of (tree, expression, context item): no schedule, clock, fault or history for a simulator to own; the libxml2 comparison is cross-implementation differential testing'),
    ('C02', 'the node tree is built eagerly by one deterministic pass; lazy parts compute from immutable fields, so no access order can change them'),
    ('C06', 'numeric operators and rounding are pure functions of their operands'),
    ('C07', 'comparison, EBV and logic tables are pure functions of the operand sequences'),
    ('C08', 'sequence expressions and aggregates are pure functions of their argument sequences'),
    ('C09', 'string functions are pure functions of their arguments (collation state handling is covered by C19)'),
    ('C10', 'lexical/canonical/cast coherence is a for-all-strings statement about pure constructors'),
    ('C11', 'calendar arithmetic is pure; the clock is not part of the statement and the implicit timezone is an explicit argument'),
    ('C12', 'regex translation and the regex functions are pure functions of (pattern, flags, subject)'),
    ('C14', 'path strings are pure functions of a node position in an immutable tree'),
    ('C17', 'the three round trips are compositions of pure functions; json-doc I/O faults are C03, global registries are C19/C05'),
    ('C18', 'sequence-type judgements are pure; the only caches are keyed by their full input'),
]
