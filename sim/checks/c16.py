"""
C16 (and, with profile='scope', the scoping clause of C05): call histories on function items.

The scheduler decides order, multiplicity and nesting of calls, including calls made from
Python on function items returned by an earlier evaluation, made after the creating Selector
has been evaluated again with other bindings. Oracle: a reference interpreter whose function
values are Python closures over immutable environments (independence holds trivially there).
"""
import hashlib

from ..refmodel import minilang as ML
from ..canon import canon, canon_exc, is_ep_error

NAME = 'c16'
PROFILE = 'full'
MINIMISE_BEFORE_KNOWN = True

EXT_ENV = {'e1': 'I', 'e2': 'S'}


def _mk_gen(rng, profile):
    g = ML.Gen(rng, profile=profile)
    style = rng.random()
    if style < 0.3:
        g.fresh_names = True        # no shadowing at all
    if rng.random() < 0.4:
        g.no_partial = True
    if rng.random() < 0.4:
        g.no_fn_loops = True
    return g


def gen_case(rng, tier, profile=None):
    profile = profile or PROFILE
    thorough = tier == 'thorough'
    ops = []
    nsel = 0
    pool_types = []     # function types of pool entries, as known at generation time (upper bound)
    nops = rng.randint(1, 8 if thorough else 5)
    maxd = rng.choice([2, 3, 3, 4, 5 if thorough else 4])
    for _ in range(nops):
        x = rng.random()
        g = _mk_gen(rng, profile)
        if profile != 'scope' and rng.random() < 0.06:
            # a named reference to a focus-dependent function captures the focus where it is evaluated
            ops.append({'op': 'focusref', 't': rng.randrange(len(FOCUS_TEMPLATES)),
                        'seq': [rng.randint(0, 9) for _ in range(rng.choice([1, 2, 3, 4]))],
                        'mode': rng.choice(['select', 'selector-twice'])})
            continue
        if x < 0.45 or (profile == 'scope' and x < 0.8):
            ty = rng.choice(['I', 'S', 'B'])
            ast = g.gen(ty, {}, rng.randint(1, maxd))
            op = {'op': 'prog', 'ast': ast, 'ty': ty, 'mode': rng.choice(['select', 'select', 'selector-twice'])}
            if rng.random() < 0.08:
                # a name bound only inside the program, read again outside: must be a static error
                names = sorted(ML.names_in(ast) - ML.free_vars(ast))
                if names:
                    op = {'op': 'unbound', 'ast': ['seq', ast, ['var', rng.choice(names)]]}
            ops.append(op)
        elif x < 0.65 or not nsel:
            ft = g.rand_ftype(rng.choice(['I', 'S']))
            many = rng.random() < 0.4
            ast = g.gen(('FS', ft) if many else ft, dict(EXT_ENV), rng.randint(1, maxd))
            ops.append({'op': 'make', 'sel': nsel, 'ast': ast, 'fty': [list(ft[1]), ft[2]]})
            nsel += 1
            ops.append({'op': 'run', 'sel': nsel - 1,
                        'bind': {'e1': rng.randint(0, 9), 'e2': [rng.randint(0, 5) for _ in range(rng.choice([0, 1, 2, 3]))]}})
        elif x < 0.8:
            ops.append({'op': 'run', 'sel': rng.randrange(nsel),
                        'bind': {'e1': rng.randint(0, 9), 'e2': [rng.randint(0, 5) for _ in range(rng.choice([0, 1, 2, 3]))]}})
        elif x < 0.86:
            # a call that fails (an argument of the wrong type): the function item must be usable afterwards
            ops.append({'op': 'badcall', 'fn': rng.randrange(12), 'arg': rng.choice(['x', '', 'NaN'])})
        else:
            ops.append({'op': 'call', 'fn': rng.randrange(12), 'seed': rng.randrange(1 << 30)})
    # always end with calls on everything created, in a seeded order
    for _ in range(rng.choice([0, 1, 2, 4])):
        ops.append({'op': 'call', 'fn': rng.randrange(12), 'seed': rng.randrange(1 << 30)})
    return {'config': {'profile': profile}, 'ops': ops}


FOCUS_TEMPLATES = [
    ("let $fs := %s ! number#0 return for $f in $fs return $f()", lambda q: [['float', repr(float(x))] for x in q]),
    ("(%s ! string#0) ! .()", lambda q: [['str', str(x)] for x in q]),
    ("let $fs := %s ! string#0 return ($fs[last()](), $fs[1]())", lambda q: [['str', str(q[-1])], ['str', str(q[0])]] if q else []),
    ("for-each(%s ! string#0, function($f) { $f() })", lambda q: [['str', str(x)] for x in q]),
    ("(%s ! position#0) ! .()", lambda q: [['int', str(i)] for i in range(1, len(q) + 1)]),
    ("let $fs := %s ! last#0 return reverse($fs) ! .()", lambda q: [['int', str(len(q))] for _ in q]),
    ("let $fs := for $i in %s return ($i ! number#0) return $fs ! .()", lambda q: [['float', repr(float(x))] for x in q]),
    # partial applications of built-in functions that read an argument as a whole value (maps and arrays), of tokens
    # that are both a function and a constructor, and of partial applications through the arrow operator: equal to
    # the direct call
    ("map:entry(1, ?)(%s)?1", lambda q: _ints(q), 'builtin-partial-value-argument'),
    ("map:put(map{}, 3, ?)(%s)?3", lambda q: _ints(q), 'builtin-partial-value-argument'),
    ("array:append([0], ?)(%s)?2", lambda q: _ints(q), 'builtin-partial-value-argument'),
    ("array:put([1, 2], 1, ?)(%s)?1", lambda q: _ints(q), 'builtin-partial-value-argument'),
    ("array:insert-before([1], 1, ?)(%s)?1", lambda q: _ints(q), 'builtin-partial-value-argument'),
    ("map:size(map:remove(map{1: 2, 5: 6, 7: 8}, ?)(%s))", lambda q: [['int', str(3 - len({1, 5, 7} & set(q)))]],
     'builtin-partial-value-argument'),
    ("array:size(array:remove([1, 2, 3, 4, 5, 6, 7, 8, 9], ?)(distinct-values(%s)[. gt 0]))",
     lambda q: [['int', str(9 - len({x for x in q if x > 0}))]], 'builtin-partial-value-argument'),
    ('(dateTime#2(?, xs:time("10:00:00"))(xs:date("2020-01-01")) eq dateTime(xs:date("2020-01-01"), xs:time("10:00:00")),'
     ' string(QName#2(?, "p:a")("urn:x")), %s)', lambda q: [['bool', True], ['str', 'p:a']] + _ints(q), 'multi-role-partial'),
    ("let $f := concat(?, '-', ?) return ('a' => $f(?))(count(%s))", lambda q: [['str', 'a-%d' % len(q)]],
     'arrow-partial-of-partial'),
    ("let $f := concat(?, '-', ?, '+', ?) return (%s ! (. => $f(?, 7))(8))",
     lambda q: [['str', '%d-8+7' % x] for x in q], 'arrow-partial-of-partial'),
    # sort keys are atomized (nodes sort by their typed value, not by their structure or document order)
    ("let $d := parse-xml(concat('<r>', string-join(%s ! concat('<i k=\"', ., '\"/>')), '</r>')) return sort($d//i/@k) ! string(.)",
     lambda q: [['str', v] for v in sorted(str(x) for x in q)], 'sort-keys-atomized'),
    ("let $d := parse-xml(concat('<r>', string-join(%s ! concat('<i k=\"', ., '\">x</i>')), '</r>')) "
     "return sort($d//i, (), function($n) { $n/@k }) ! string(@k)",
     lambda q: [['str', v] for v in sorted(str(x) for x in q)], 'sort-keys-atomized'),
    # fn:sort does not modify its operand: a partial application with the sequence fixed, called with two key functions
    # (the second call must start from the original order: ties keep it)
    ("let $s := sort(%s, (), ?) return ($s(function($x) { -$x }), 100, $s(function($x) { 0 }), 100, $s(function($x) { $x mod 2 }))",
     lambda q: _ints(sorted(q, key=lambda x: -x)) + [['int', '100']] + _ints(q) + [['int', '100']] + _ints(sorted(q, key=lambda x: x % 2)),
     'sort-operand-unchanged'),
    ("let $a := [%s] return (sort($a(1), (), function($x) { -$x }), 100, $a(1), 100, sort($a?1), 100, $a?1)",
     lambda q: _ints(sorted(q, key=lambda x: -x)) + [['int', '100']] + _ints(q) + [['int', '100']] + _ints(sorted(q)) + [['int', '100']] + _ints(q),
     'sort-operand-unchanged'),
    # named references to functions of arity one that depend on the focus bind it where they are created
    ("let $d := parse-xml('<r><i xml:lang=\"en\"/><i xml:lang=\"it\"/><i/></r>') return (let $f := $d/r/i[1]/lang#1 "
     "return for $k in %s return $d/r/i[($k mod 3) + 1]/$f('en'))", lambda q: [['bool', True] for _ in q], 'focus-dependent-function-reference'),
    # a partial application that has been called, then partial applications derived from it, then the original again
    ("let $p := concat(?, '-', ?, '+', ?) return ($p(1, 2, 3), $p(count(%s), ?, ?)(8, 9), (7 => $p(?, 6))(5), $p(?, ?, 0)(4, 4), $p(1, 2, 3))",
     lambda q: [['str', '1-2+3'], ['str', '%d-8+9' % len(q)], ['str', '7-5+6'], ['str', '4-4+0'], ['str', '1-2+3']],
     'partial-derived-after-a-call'),
    ("let $p := function($a, $b, $c) { $a * 100 + $b * 10 + $c }(?, ?, ?) return ($p(1, 2, 3), $p(count(%s), ?, ?)(8, 9), $p(?, 5, ?)(4, 6), $p(3, 2, 1))",
     lambda q: _ints([123, len(q) * 100 + 89, 456, 321]), 'partial-derived-after-a-call'),
    # the arity of an inline function item is checked when a partial application of it is created
    ("let $f := function($a, $b) { $a * 10 + $b } return for $k in %s return $f($k, ?)(1)",
     lambda q: _ints([x * 10 + 1 for x in q]), 'partial-arity-checked'),
    ("let $f := function($a, $b) { $a * 10 + $b } return for $k in %s return $f(?, 2, $k)(1)",
     lambda q: ['error', 'XPTY0004'], 'partial-arity-checked'),
    ("let $f := function($a, $b) { $a * 10 + $b } return for $k in %s return $f(?)($k)",
     lambda q: ['error', 'XPTY0004'], 'partial-arity-checked'),
    ("let $f := function($a, $b) { $a * 10 + $b } return for $k in %s return $f($k, ?)(1, 2)",
     lambda q: ['error', 'XPTY0004'], 'partial-arity-checked'),
    # the fixed arguments of a partial application of a typed inline function are converted and checked as in a call
    ("let $f := function($a as xs:double, $b) { ($a instance of xs:double, $a + $b) } return for $k in %s return ($f($k, 1), $f($k, ?)(1))",
     lambda q: [y for x in q for y in ([['bool', True], ['float', repr(float(x + 1))]] * 2)], 'partial-fixed-argument-conversion'),
    ("let $f := function($a as xs:integer, $b) { $a + $b } return for $k in %s return $f(string($k), ?)(1)",
     lambda q: ['error', 'XPTY0004'], 'partial-fixed-argument-conversion'),
    ("let $f := function($a, $b as xs:integer) { $b instance of xs:integer } return for $k in %s return $f(?, xs:untypedAtomic(string($k)))(0)",
     lambda q: [['bool', True] for _ in q], 'partial-fixed-argument-conversion'),
    # fn:apply: an arity error is FOAP0001, an error raised inside the applied function is that error; maps and arrays
    # are functions of arity one
    ("for $k in %s return apply(function($x) { $x + 'a' }, [$k])", lambda q: ['error', 'XPTY0004'], 'apply-errors'),
    ("for $k in %s return apply(function($x as xs:integer) { $x }, [string($k)])", lambda q: ['error', 'XPTY0004'], 'apply-errors'),
    ("for $k in %s return apply(function($x) { $x }, [$k, $k])", lambda q: ['error', 'FOAP0001'], 'apply-errors'),
    ("for $k in %s return (function-arity(map{$k: 1, 'z': 2}), function-arity([$k, $k, $k]), apply(map{$k: $k + 1}, [$k]), apply([7, 8, 9], [($k mod 3) + 1]))",
     lambda q: [y for x in q for y in (['int', '1'], ['int', '1'], ['int', str(x + 1)], ['int', str(7 + x % 3)])], 'apply-errors'),
    # the body of an inline function sees its closure, not the variables in scope where it is called
    ("let $f := function() { $z } return for $z in %s return $f()", lambda q: ['error', 'XPST0008'], 'dynamic-scope'),
    ("let $f := function($a) { $a + $z } return (for $z in %s return 1, $f(1))", lambda q: ['error', 'XPST0008'], 'dynamic-scope'),
    ("let $z := 5, $f := function($a) { $a + $z } return for $z in %s return $f($z)", lambda q: _ints([x + 5 for x in q]), 'dynamic-scope'),
    # for-each-pair with two lazy operands that depend on the focus (predicates with position()/last(), paths)
    ("for-each-pair(%s[position() ge 1][. ge last() - last()], %s[. ge 0][position() le last()], function($a, $b) { $a * 10 + $b })",
     lambda q: _ints([x * 11 for x in q]), 'for-each-pair-lazy-operands'),
    ("for-each-pair((1 to 9)[. ge last() - 2], %s[position() lt 3], function($a, $b) { $a * 10 + $b })",
     lambda q: _ints([(7 + i) * 10 + x for i, x in enumerate(q[:2])]), 'for-each-pair-lazy-operands'),
    ("for-each-pair((1 to 6)[. ge last() - count(%s) + 1], (1 to 12)[. lt count(%s) + 1], function($a, $b) { $a * 10 + $b })",
     lambda q: _ints([(6 - len(q) + 1 + i) * 10 + i + 1 for i in range(len(q))]), 'for-each-pair-lazy-operands'),
    ("for-each-pair((1 to 12)[. lt count(%s) + 1], (1 to 6)[. ge last() - count(%s) + 1], function($a, $b) { $a * 10 + $b })",
     lambda q: _ints([(i + 1) * 10 + 6 - len(q) + 1 + i for i in range(len(q))]), 'for-each-pair-lazy-operands'),
    ("let $d := parse-xml(concat('<r>', string-join(%s ! concat('<i k=\"', ., '\"/>')), '</r>')) "
     "return for-each-pair($d//i/@k, $d/r/i, function($a, $b) { concat($a, name($b), count($b/preceding-sibling::*)) })",
     lambda q: [['str', '%di%d' % (x, i)] for i, x in enumerate(q)], 'for-each-pair-lazy-operands'),
    # placeholders at every position of the folds (also under the XPath 3.0 parser, whose placeholder is another token)
    ("fold-left(%s, ?, function($a, $b) { $a + $b })(0)", lambda q: [['int', str(sum(q))]], 'fold-placeholder', 'v30'),
    ("fold-right(%s, ?, function($a, $b) { $a + $b })(1)", lambda q: [['int', str(sum(q) + 1)]], 'fold-placeholder', 'v30'),
    ("fold-left(?, ?, ?)(%s, 0, function($a, $b) { $a * 2 + $b })", lambda q: [['int', str(_fl(q))]], 'fold-placeholder', 'v30'),
    ("fold-left(%s, 0, ?)(function($a, $b) { $a + $b }), fold-right(?, 0, function($a, $b) { $a + $b })(%s)",
     lambda q: [['int', str(sum(q))], ['int', str(sum(q))]], 'fold-placeholder', 'v30'),
    ("for-each(%s, ?)(function($x) { $x + 1 }), filter(?, function($x) { $x gt 4 })(%s)",
     lambda q: _ints([x + 1 for x in q]) + _ints([x for x in q if x > 4]), 'fold-placeholder', 'v30'),
]


def _fl(q):
    acc = 0
    for x in q:
        acc = acc * 2 + x
    return acc


def _ints(q):
    return [['int', str(x)] for x in q]


def _args_for(ptypes, seed):
    import random
    r = random.Random(seed)
    out = []
    for p in ptypes:
        if p == 'I':
            out.append(r.randint(-2, 9))
        else:
            out.append([r.randint(0, 5) for _ in range(r.choice([0, 1, 2, 3]))])
    return out


def _engine_items(res):
    items = res if isinstance(res, list) else [res]
    return [canon(x) for x in items]


def _strip_fn(c):
    """Function items are compared by arity only."""
    out = []
    for x in c:
        if x and x[0] == 'function':
            out.append(['function', x[-1]])
        else:
            out.append(x)
    return out


def run_case(case, world):
    import elementpath
    from elementpath.xpath31 import XPath31Parser
    violations = []
    stats = {'ops': 0, 'programs': 0, 'python_calls': 0, 'selector_runs': 0, 'model_errors_skipped': 0,
             'ast_nodes': 0}
    flags_seen = set()
    shapes = []
    selectors = {}      # k -> (Selector, ast, fty, fn_envs)
    pool = []           # (engine item, model Fn, ptypes)

    def violate(cls, what, detail, flags, extra=()):
        if ('unneeded-key-error' in flags or 'unneeded-argument-error' in flags) and 'engine-error' in extra \
                and 'non-ep-exception' not in extra:
            # the model left an erroneous sort key function uncalled because nothing had to be compared, or the second
            # sequence of for-each-pair unevaluated because the first is empty; an engine that reports the error is
            # right too
            stats['unneeded_key_errors_raised'] = stats.get('unneeded_key_errors_raised', 0) + 1
            return
        sig = '%s:%s|%s' % (cls.lower(), what, ','.join(sorted(flags)))
        violations.append({'cls': cls, 'signature': sig, 'sig_base': what, 'flags': sorted(flags), 'detail': detail,
                           'features': sorted(set(flags) | set(extra) | {'op:' + what}) + (
                               ['no-risk-flag'] if not flags else [])})

    for idx, op in enumerate(case['ops']):
        kind = op['op']
        stats['ops'] += 1
        if kind in ('prog', 'unbound'):
            ast = op['ast']
            text = ML.render(ast)
            stats['programs'] += 1
            stats['ast_nodes'] += ML.size(ast)
            interp = ML.Interp()
            extra_feats = []
            try:
                fv = ML.free_vars(ast)
                if kind == 'unbound':
                    # shape (X, $n) with n bound somewhere inside X and nowhere visible at top level
                    if not (ast[0] == 'seq' and len(ast) == 3 and ast[2][0] == 'var' and fv == {ast[2][1]}
                            and ast[2][1] in ML.names_in(ast[1])):
                        continue
                    if ast[2][1] in ML.param_names(ast[1]):
                        extra_feats.append('read-name-is-fn-param')
                    if ast[2][1] in ML.binder_names(ast[1]):
                        extra_feats.append('read-name-is-binder')
                    raise ML.ModelError('XPST0008', ','.join(sorted(fv)))
                if fv:
                    stats['model_errors_skipped'] += 1     # only minimisation produces these
                    continue
                mval = interp.ev(ast, {})
                if any(isinstance(x, ML.Arr) for x in mval):
                    stats['model_errors_skipped'] += 1     # select() flattens top-level arrays by design
                    continue
                expected = ['ok', ML.value_to_canon(mval)]
            except ML.ModelError as e:
                expected = ['error', e.code, str(e)]
            flags = set(interp.flags)
            flags_seen |= flags
            world.event(('prog', idx, text))
            outcomes = []
            try:
                if op.get('mode') == 'selector-twice':
                    s = elementpath.Selector(text, parser=XPath31Parser)
                    outcomes.append(['ok', _engine_items(s.select(None, item=1))])
                    outcomes.append(['ok', _engine_items(s.select(None, item=1))])
                else:
                    outcomes.append(['ok', _engine_items(elementpath.select(None, text, parser=XPath31Parser, item=1))])
            except Exception as e:
                outcomes.append(['error', e])
            shapes.append(kind + ':' + str(ML.size(ast) // 5))
            for n, outcome in enumerate(outcomes):
                what = kind if n == 0 else 'prog-second-evaluation'
                if outcome[0] == 'error':
                    err = outcome[1]
                    world.event(('error', idx, canon_exc(err)))
                    if expected[0] == 'ok':
                        if is_ep_error(err) and canon_exc(err)[-1] == 'FOAR0002':
                            # the implementation limit on the size of xs:integer (programs that square their
                            # accumulator in a fold): the reference interpreter has no limit
                            stats['integer_limit_errors'] = stats.get('integer_limit_errors', 0) + 1
                        elif is_ep_error(err):
                            violate('MODEL_MISMATCH', what, '%s raised %r, reference interpreter gives %r' % (
                                text, canon_exc(err), expected[1]), flags, ['engine-error'])
                        else:
                            # the program has a value in the model: no value at all is a mismatch whatever is raised
                            violate('MODEL_MISMATCH', what, '%s raised %r, reference interpreter gives %r' % (
                                text, canon_exc(err), expected[1]), flags, ['engine-error', 'non-ep-exception'])
                    continue
                world.event(('result', idx, outcome[1]))
                if expected[0] == 'error':
                    if expected[1] == 'XPTY0004' and 'arity' in expected[2]:
                        violate('MODEL_MISMATCH', what, '%s returned %r although a function item is called with the wrong '
                                'number of arguments' % (text, outcome[1]), flags, ['missing-arity-error'])
                    elif expected[1] == 'XPST0008':
                        violate('MODEL_MISMATCH', what, '%s returned %r but reads a variable that is not in scope (%s)' % (
                            text, outcome[1], expected[1]), flags, ['missing-XPST0008'] + extra_feats)
                    else:
                        stats['model_errors_skipped'] += 1
                elif _strip_fn(outcome[1]) != _strip_fn(expected[1]):
                    violate('MODEL_MISMATCH', what, '%s gave %r, reference interpreter gives %r' % (
                        text, outcome[1], expected[1]), flags)
        elif kind == 'focusref':
            tmpl, expect = FOCUS_TEMPLATES[op['t'] % len(FOCUS_TEMPLATES)][:2]
            tfeat = (FOCUS_TEMPLATES[op['t'] % len(FOCUS_TEMPLATES)] + ('focus-dependent-function-reference',))[2]
            seqtext = '(' + ', '.join(str(x) for x in op['seq']) + ')'
            text = tmpl.replace('%s', seqtext)
            expected = expect(op['seq'])
            tparser = XPath31Parser
            if 'v30' in FOCUS_TEMPLATES[op['t'] % len(FOCUS_TEMPLATES)][2:] and sum(op['seq']) % 2:
                from elementpath.xpath30 import XPath30Parser
                tparser = XPath30Parser
                text = text + ' (: 3.0 :)'
            stats['programs'] += 1
            world.event(('focusref', idx, text))
            try:
                outs = []
                if op.get('mode') == 'selector-twice':
                    s_ = elementpath.Selector(text, parser=tparser)
                    outs.append(_engine_items(s_.select(None, item=1)))
                    outs.append(_engine_items(s_.select(None, item=1)))
                else:
                    outs.append(_engine_items(elementpath.select(None, text, parser=tparser, item=1)))
                if expected[:1] == ['error']:
                    violate('MODEL_MISMATCH', 'focusref', '%s gave %r, expected the error %s' % (text, outs[0], expected[1]), set(),
                            [tfeat, 'missing-error'])
                    outs = []
                for got in outs:
                    if got != expected:
                        violate('MODEL_MISMATCH', 'focusref', '%s gave %r, expected %r' % (text, got, expected), set(),
                                [tfeat])
                        break
            except Exception as e:
                world.event(('error', idx, canon_exc(e)))
                if expected[:1] == ['error'] and is_ep_error(e) and canon_exc(e)[-1] == expected[1]:
                    shapes.append('focusref')
                    continue
                # the template has a value: no value at all is a mismatch whatever is raised
                violate('MODEL_MISMATCH', 'focusref', '%s raised %r, expected %r' % (text, canon_exc(e), expected), set(),
                        [tfeat, 'engine-error'] + ([] if is_ep_error(e) else ['non-ep-exception']))
            shapes.append('focusref')
        elif kind == 'make':
            text = ML.render(op['ast'])
            stats['ast_nodes'] += ML.size(op['ast'])
            try:
                s = elementpath.Selector(text, parser=XPath31Parser)
            except Exception as e:
                world.event(('make-failed', idx, canon_exc(e)))
                if is_ep_error(e):
                    violate('MODEL_MISMATCH', 'make', 'parsing %s raised %r' % (text, canon_exc(e)), set(), ['engine-error'])
                continue
            selectors[op['sel']] = (s, op['ast'], op['fty'], {}, set())
            shapes.append('make')
        elif kind == 'run':
            ent = selectors.get(op['sel'])
            if ent is None:
                continue
            s, ast, fty, fn_envs, sel_flags = ent
            stats['selector_runs'] += 1
            bind = op['bind']
            interp = ML.Interp(fn_envs=fn_envs)
            env = {'e1': (bind['e1'],), 'e2': tuple(bind['e2'])}
            try:
                mfns = interp.ev(ast, env)
            except ML.ModelError:
                stats['model_errors_skipped'] += 1
                continue
            sel_flags |= interp.flags
            if stats['selector_runs'] > 1 and any(e[0] == 'run' and e[2] == op['sel'] for e in world.events):
                sel_flags.add('selector-rerun')
            flags = set(sel_flags)
            flags_seen |= flags
            world.event(('run', idx, op['sel'], bind))
            try:
                res = s.select(None, item=1, variables={'e1': bind['e1'], 'e2': list(bind['e2'])})
            except Exception as e:
                world.event(('error', idx, canon_exc(e)))
                if is_ep_error(e):
                    violate('MODEL_MISMATCH', 'run', '%s with %r raised %r' % (ML.render(ast), bind, canon_exc(e)),
                            flags, ['engine-error'])
                continue
            items = res if isinstance(res, list) else [res]
            if len(items) != len(mfns):
                violate('MODEL_MISMATCH', 'run', '%s with %r gave %d function items, reference gives %d' % (
                    ML.render(ast), bind, len(items), len(mfns)), flags)
                continue
            for it, mf in zip(items, mfns):
                if len(pool) < 12:
                    pool.append((it, mf, fty[0], ML.render(ast), bind, sel_flags))
            shapes.append('run')
        elif kind == 'badcall':
            if not pool:
                continue
            it, mf, ptypes, src, bind, mkflags = pool[op['fn'] % len(pool)]
            if not ptypes:
                continue
            world.event(('badcall', idx, op['fn'] % len(pool)))
            try:
                it(*[op['arg'] for _ in ptypes], context=elementpath.XPathContext(None, item=1))
                world.probe('badcall-accepted')
            except Exception as e:
                world.event(('badcall-error', idx, canon_exc(e)))     # expected; only the later calls are judged
                world.probe('badcall-raised')
            shapes.append('badcall')
        elif kind == 'call':
            if not pool:
                continue
            it, mf, ptypes, src, bind, mkflags = pool[op['fn'] % len(pool)]
            args = _args_for(ptypes, op['seed'])
            stats['python_calls'] += 1
            interp = ML.Interp()
            try:
                exp = ML.value_to_canon(mf.call([tuple(a) if isinstance(a, list) else (a,) for a in args]))
            except ML.ModelError:
                stats['model_errors_skipped'] += 1
                continue
            # a function item created by an earlier evaluation, called now: flags of its creation plus
            # 'cross-evaluation' when its Selector has been run again since
            flags = set(mkflags)
            world.event(('call', idx, op['fn'] % len(pool), args))
            try:
                ctx = elementpath.XPathContext(None, item=1)
                got = it(*args, context=ctx)
                got = _engine_items(got)
            except Exception as e:
                world.event(('error', idx, canon_exc(e)))
                violate('MODEL_MISMATCH', 'python-call', 'function item from %s %r called with %r raised %r, '
                        'reference gives %r' % (src, bind, args, canon_exc(e), exp), flags,
                        ['engine-error'] + ([] if is_ep_error(e) else ['non-ep-exception']))
                continue
            world.event(('result', idx, got))
            if _strip_fn(got) != _strip_fn(exp):
                violate('MODEL_MISMATCH', 'python-call', 'function item from %s %r called with %r gave %r, '
                        'reference gives %r' % (src, bind, args, got, exp), flags)
            shapes.append('call')
    for f in flags_seen:
        world.probe('risk-flag:' + f)
    nontrivial = []
    if stats['ast_nodes'] >= 8:
        nontrivial = [hashlib.sha256(repr([o for o in case['ops']]).encode()).hexdigest()[:16]]
    return {'violations': violations, 'stats': stats, 'nontrivial': nontrivial}


# ---- minimisation: shrink programs structurally ----------------------------------------------------------

def _subtrees(ast, path=()):
    yield path, ast
    for i, ch in enumerate(ast[1:], 1):
        if isinstance(ch, list):
            if ch and isinstance(ch[0], str):
                for x in _subtrees(ch, path + (i,)):
                    yield x
            else:
                for j, c in enumerate(ch):
                    if isinstance(c, list) and c and isinstance(c[0], str):
                        for x in _subtrees(c, path + (i, j)):
                            yield x


def _replace(ast, path, new):
    if not path:
        return new
    out = list(ast)
    i = path[0]
    if len(path) == 1:
        out[i] = new
        return out
    child = out[i]
    if child and isinstance(child[0], str):
        out[i] = _replace(child, path[1:], new)
    else:
        child = list(child)
        child[path[1]] = _replace(child[path[1]], path[2:], new)
        out[i] = child
    return out


def simplify(case):
    """Hoist sub-expressions / replace them by literals; the reference interpreter re-judges each candidate."""
    for i, op in enumerate(case['ops']):
        ast = op.get('ast')
        if ast is None:
            continue
        if op['op'] == 'unbound':
            inner = {'op': 'prog', 'ast': ast[1]}
            for c in simplify({'ops': [inner], 'config': {}}):
                ops = list(case['ops'])
                ops[i] = dict(op, ast=['seq', c['ops'][0]['ast'], ast[2]])
                yield dict(case, ops=ops)
            continue
        subs = list(_subtrees(ast))
        cands = []
        for path, node in subs:
            if not path:
                # whole program replaced by one of its sub-programs
                for p2, n2 in subs[1:]:
                    if n2[0] not in ('?', 'dot') and len(p2) <= 3:
                        cands.append(n2)
                continue
            if node[0] in ('int', '?', 'dot', 'bool', 'str'):
                continue
            cands.append(_replace(ast, path, ['int', 1]))
            cands.append(_replace(ast, path, ['seq']))
            # replace a node by one of its own children
            for ch in node[1:]:
                if isinstance(ch, list) and ch and isinstance(ch[0], str) and ch[0] not in ('?',):
                    cands.append(_replace(ast, path, ch))
        seen = set()
        for c in cands[:400]:
            key = repr(c)
            if key in seen or ML.size(c) >= ML.size(ast):
                continue
            seen.add(key)
            ops = list(case['ops'])
            ops[i] = dict(op, ast=c)
            yield dict(case, ops=ops)
        if op.get('mode') == 'selector-twice':
            ops = list(case['ops'])
            ops[i] = dict(op, mode='select')
            yield dict(case, ops=ops)
