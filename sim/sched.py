"""
Baton-passing scheduler: real threading.Thread objects, exactly one of which holds the baton.
Every pre-emption point (sys.monitoring line events inside elementpath files, and every seam call:
lock acquire/release, setlocale, I/O) calls point(); the seeded strategy - or, in replay mode, the
recorded decision list - decides who runs next. Blocking on a SimLock parks the thread here, so
all-blocked deadlock is detected deterministically instead of hanging the process.
"""
import random
import threading

from .world import SimDeadlock, SimHang


class Strategy:
    def __init__(self, cfg, rng):
        self.kind = cfg.get('kind', 'uniform')
        self.p = cfg.get('p', 0.02)
        self.rng = rng
        self.depth = cfg.get('depth', 2)
        self.est = cfg.get('estimated_steps', 4000)
        self.prio = None
        self.change_at = None

    def setup(self, tids):
        if self.kind == 'pct':
            order = list(tids)
            self.rng.shuffle(order)
            self.prio = {t: len(order) - i for i, t in enumerate(order)}        # higher runs first
            self.change_at = sorted(self.rng.randrange(1, max(2, self.est)) for _ in range(max(0, self.depth - 1)))
            self.low = 0

    def want_switch(self, seq, me, runnable, kind):
        """Returns the thread to run next (may be me)."""
        if len(runnable) <= 1:
            return me
        if self.kind == 'uniform':
            if self.rng.random() < self.p:
                others = [t for t in runnable if t != me]
                return self.rng.choice(others)
            return me
        if self.kind == 'seam':
            if kind != 'line' and self.rng.random() < 0.5:
                others = [t for t in runnable if t != me]
                return self.rng.choice(others)
            return me
        if self.kind == 'pct':
            while self.change_at and seq >= self.change_at[0]:
                self.change_at.pop(0)
                self.low -= 1
                self.prio[me] = self.low            # the running thread drops below all others
            return max(runnable, key=lambda t: self.prio[t])
        return me

    def pick_forced(self, runnable):
        if self.kind == 'pct':
            return max(runnable, key=lambda t: self.prio[t])
        return self.rng.choice(sorted(runnable))


class BatonScheduler:
    def __init__(self, world, cfg, decisions=None, step_cap=3_000_000):
        self.world = world
        self.rng = random.Random(cfg.get('seed', 0))
        self.strategy = Strategy(cfg, self.rng)
        self.replay = None if decisions is None else {int(d[0]): d[1] for d in decisions}
        self.decisions = []             # recorded [seq, to_thread, forced]
        self.seq = 0
        self.sems = {}
        self.state = {}                 # tid -> 'ready' | 'blocked' | 'done'
        self.blocked_on = {}
        self.current = None
        self.by_ident = {}
        self.main_sem = threading.Semaphore(0)
        self.begun = set()      # threads that have started running and are not finished
        self.seam_trace = []
        self.verdict = None
        self.step_cap = step_cap
        self.switches = 0
        self.errors = {}

    # ---- identity -------------------------------------------------------------------------------------
    def current_thread(self):
        return 'T%s' % self.by_ident.get(threading.get_ident(), 'main')

    def current_task(self):
        return self.current_thread()

    def runnable(self):
        return [t for t, s in self.state.items() if s == 'ready']

    # ---- running threads --------------------------------------------------------------------------------
    def run(self, bodies):
        """bodies: {tid: callable}. Returns when every thread is done or a verdict stops the run."""
        threads = {}
        for tid in sorted(bodies):
            self.sems[tid] = threading.Semaphore(0)
            self.state[tid] = 'ready'

        def wrap(tid, fn):
            def target():
                self.by_ident[threading.get_ident()] = tid
                self.sems[tid].acquire()
                try:
                    # the simulated process sees this thread from now on (threads start late: see World.install)
                    self.begun.add(tid)
                    if self.verdict is None:
                        fn()
                except (SimDeadlock, SimHang) as e:
                    if self.verdict is None:
                        self.verdict = (type(e).__name__, str(e))
                except BaseException as e:       # noqa
                    self.errors[tid] = e
                finally:
                    self.begun.discard(tid)
                    self.state[tid] = 'done'
                    self._handoff_after_exit(tid)
            return target

        for tid in sorted(bodies):
            th = threading.Thread(target=wrap(tid, bodies[tid]), name='sim-T%d' % tid, daemon=True)
            threads[tid] = th
            th.start()
        self.strategy.setup(sorted(bodies))
        self.world.sched = self
        first = self._forced_choice(sorted(bodies))
        self.current = first
        self.sems[first].release()
        self.main_sem.acquire()
        if self.verdict is not None:
            self.world.frozen = True        # what unwinding threads log after a verdict is not part of the run
        self.world.sched = None
        # release every parked thread so that it can finish (after a verdict they unwind at their next point)
        for tid, th in threads.items():
            if th.is_alive():
                self.sems[tid].release()
        for th in threads.values():
            th.join(timeout=5)

    def _forced_choice(self, runnable):
        if self.replay is not None:
            to = self.replay.get(self.seq)
            if to in runnable:
                return to
            return sorted(runnable)[0]
        to = self.strategy.pick_forced(runnable)
        self.decisions.append([self.seq, to, 1])
        return to

    def _handoff_after_exit(self, tid):
        run = self.runnable()
        if self.verdict is not None or not run:
            if self.verdict is None and any(s == 'blocked' for s in self.state.values()):
                self.verdict = ('SimDeadlock', 'threads %r are blocked forever' % sorted(
                    t for t, s in self.state.items() if s == 'blocked'))
                for t, s in self.state.items():          # wake them: their acquire raises SimDeadlock
                    if s == 'blocked':
                        self.state[t] = 'ready'
                        self.sems[t].release()
                        return
            self.main_sem.release()
            return
        nxt = self._forced_choice(run)
        self.current = nxt
        self.sems[nxt].release()

    # ---- pre-emption points -------------------------------------------------------------------------------
    def point(self, kind):
        ident = threading.get_ident()
        me = self.by_ident.get(ident)
        if me is None or me != self.current:
            return
        if self.verdict is not None:
            raise SimDeadlock(self.verdict[1]) if self.verdict[0] == 'SimDeadlock' else SimHang(self.verdict[1])
        self.seq += 1
        if self.seq > self.step_cap:
            self.verdict = ('SimHang', 'more than %d scheduling points' % self.step_cap)
            raise SimHang(self.verdict[1])
        if kind != 'line':
            self.seam_trace.append((me, kind))
        run = self.runnable()
        if self.replay is not None:
            to = self.replay.get(self.seq, me)
            if to not in run:
                to = me
        else:
            to = self.strategy.want_switch(self.seq, me, run, kind)
            if to != me:
                self.decisions.append([self.seq, to, 0])
        if to != me:
            self._switch(me, to)

    def _switch(self, me, to):
        self.switches += 1
        self.current = to
        self.sems[to].release()
        self.sems[me].acquire()
        if self.verdict is not None and self.state.get(me) != 'done':
            raise SimDeadlock(self.verdict[1]) if self.verdict[0] == 'SimDeadlock' else SimHang(self.verdict[1])

    # ---- locks -----------------------------------------------------------------------------------------------
    def block_on(self, lock):
        me = self.by_ident.get(threading.get_ident())
        if me is None:
            raise SimDeadlock('a thread outside the simulation blocks on %s' % lock.where)
        self.state[me] = 'blocked'
        self.blocked_on[me] = lock
        self.seam_trace.append((me, 'blocked'))
        self.world.probe('thread-blocked-on-lock')
        run = self.runnable()
        if not run:
            self.state[me] = 'ready'
            self.verdict = ('SimDeadlock', 'all threads blocked; T%s waits for %s held by %s' % (me, lock.where, lock.owner_task))
            exc = SimDeadlock(self.verdict[1])
            exc.owner = str(lock.owner_task)
            exc.task = 'T%s' % me
            raise exc
        nxt = self._forced_choice(run)
        self.current = nxt
        self.sems[nxt].release()
        self.sems[me].acquire()
        if self.verdict is not None:
            self.state[me] = 'ready'
            raise SimDeadlock(self.verdict[1])
        # woken: lock_released() made us ready and somebody handed us the baton

    def lock_released(self, lock):
        for t, lk in list(self.blocked_on.items()):
            if lk is lock and self.state.get(t) == 'blocked':
                self.state[t] = 'ready'
                del self.blocked_on[t]
