"""
Persistent reference model of XPath 3.1 maps and arrays.

Values are canonical forms (the same shape sim.canon.canon produces), all immutable by
construction (every operation builds new lists):
  item     ['int','1'] | ['str','a'] | ['map', [[key, value], ...]] | ['array', [member, ...]]
  sequence a Python list of items; a singleton sequence is represented by the item itself
"""
import datetime
import re
from fractions import Fraction
from decimal import Decimal


class ModelError(Exception):
    def __init__(self, code):
        Exception.__init__(self, code)
        self.code = code


def is_item(c):
    return isinstance(c, list) and len(c) > 0 and isinstance(c[0], str)


def as_seq(c):
    if c is None:
        return []
    if is_item(c):
        return [c]
    return list(c)


def norm(c):
    """Normal form: singleton sequences collapse to the item; map entries sorted by key."""
    if c is None:
        return []
    if is_item(c):
        if c[0] in ('map', 'array') and (len(c) < 2 or not isinstance(c[1], list)):
            return ['malformed', repr(c)]
        if c[0] == 'map':
            ents = [[norm(k), norm(v)] for k, v in c[1]]
            ents.sort(key=lambda kv: repr(kv[0]))
            return ['map', ents]
        if c[0] == 'array':
            return ['array', [norm(m) for m in c[1]]]
        return list(c)
    items = []
    for x in c:
        n = norm(x)
        if is_item(n):
            items.append(n)
        else:
            items.extend(n)
    if len(items) == 1:
        return items[0]
    return items


NUMERIC = ('int', 'Integer', 'Decimal', 'float', 'Float', 'Float10', 'Double10')
STRINGY = ('str', 'AnyURI', 'UntypedAtomic')


BOOL_AS_NUM = [False]     # variant relation used only to *explain* a mismatch (Python: True == 1)


def keynorm(atom):
    """The op:same-key equivalence class of an atomic value."""
    if not is_item(atom) or len(atom) < 2:
        return ('malformed', repr(atom))
    t, v = atom[0], atom[1]
    if t == 'bool':
        if BOOL_AS_NUM[0]:
            return ('num', Fraction(1 if v else 0))
        return ('bool', bool(v))
    if t in NUMERIC:
        if v in ('NaN', 'nan'):
            return ('num', 'NaN')
        if v in ('inf', 'INF'):
            return ('num', 'INF')
        if v in ('-inf', '-INF'):
            return ('num', '-INF')
        if t in ('float', 'Float', 'Float10', 'Double10'):
            return ('num', Fraction(float(v)))
        return ('num', Fraction(Decimal(v)))
    if t in STRINGY:
        return ('str', v)
    if t in ('DateTime10', 'DateTime') and re.search(r'(Z|[+-]\d\d:\d\d)$', v):
        # values with a timezone are the same key when they are the same instant
        dt = datetime.datetime.fromisoformat(v.replace('Z', '+00:00'))
        return (t, dt.astimezone(datetime.timezone.utc).isoformat())
    return (t, v)


def key_classes(atom):
    t = atom[0]
    if t == 'bool':
        return 'bool'
    if t in NUMERIC:
        return 'nan' if atom[1] in ('NaN', 'nan') else 'num'
    if t in STRINGY:
        return t
    return t


def require_atomic_key(k):
    k = norm(k)
    if not is_item(k) or k[0] in ('map', 'array', 'function', 'node'):
        raise ModelError('XPTY0004')
    return k


def require(kind, v):
    v = norm(v)
    if not is_item(v) or v[0] != kind:
        raise ModelError('XPTY0004')
    return v


def require_int(v):
    v = norm(v)
    if BOOL_AS_NUM[0] and is_item(v) and v[0] == 'bool':
        return 1 if v[1] else 0
    if is_item(v) and v[0] == 'UntypedAtomic':
        # function conversion rules: an xs:untypedAtomic argument is cast to the expected type
        if not re.fullmatch(r'\s*[+-]?\d+\s*', v[1]):
            raise ModelError('FORG0001')
        return int(v[1])
    if not is_item(v) or v[0] not in ('int', 'Integer'):
        raise ModelError('XPTY0004')
    return int(v[1])


# ---- maps -----------------------------------------------------------------------------------

def m_find(ents, key):
    kn = keynorm(key)
    for i, (k, _) in enumerate(ents):
        if keynorm(k) == kn:
            return i
    return -1


def map_new(pairs):
    """Map constructor: duplicate keys raise XQDY0137."""
    ents = []
    for k, v in pairs:
        k = require_atomic_key(k)
        if m_find(ents, k) >= 0:
            raise ModelError('XQDY0137')
        ents.append([k, norm(v)])
    return ['map', ents]


def map_size(m):
    return ['int', str(len(require('map', m)[1]))]


def map_keys(m):
    return [k for k, _ in require('map', m)[1]]


def map_contains(m, key):
    return ['bool', m_find(require('map', m)[1], require_atomic_key(key)) >= 0]


def map_get(m, key):
    ents = require('map', m)[1]
    i = m_find(ents, require_atomic_key(key))
    return [] if i < 0 else ents[i][1]


def map_put(m, key, value):
    ents = require('map', m)[1]
    key = require_atomic_key(key)
    i = m_find(ents, key)
    out = [[k, v] for j, (k, v) in enumerate(ents) if j != i]
    out.append([key, norm(value)])
    return ['map', out]


def map_remove(m, keys):
    ents = require('map', m)[1]
    kns = [keynorm(require_atomic_key(k)) for k in as_seq(norm(keys))]
    return ['map', [[k, v] for k, v in ents if keynorm(k) not in kns]]


def map_entry(key, value):
    return ['map', [[require_atomic_key(key), norm(value)]]]


def map_merge(maps, duplicates='use-first'):
    """Returns a list of acceptable results (use-any admits several)."""
    out = []
    for m in as_seq(norm(maps)):
        for k, v in require('map', m)[1]:
            i = m_find(out, k)
            if i < 0:
                out.append([k, v])
            elif duplicates == 'reject':
                raise ModelError('FOJS0003')
            elif duplicates == 'use-first':
                pass
            elif duplicates == 'use-last':
                out[i] = [out[i][0], v]      # which of the two same-key keys is kept is not observable by keynorm
                out[i][0] = k
            elif duplicates == 'combine':
                out[i] = [out[i][0], norm(as_seq(out[i][1]) + as_seq(v))]
            elif duplicates == 'use-any':
                pass
            else:
                raise ModelError('FOJS0005')
    return ['map', out]


# ---- arrays ---------------------------------------------------------------------------------

def array_new(members):
    return ['array', [norm(m) for m in members]]


def array_size(a):
    return ['int', str(len(require('array', a)[1]))]


def array_get(a, pos):
    mem = require('array', a)[1]
    p = require_int(pos)
    if p < 1 or p > len(mem):
        raise ModelError('FOAY0001')
    return mem[p - 1]


def array_put(a, pos, member):
    mem = require('array', a)[1]
    p = require_int(pos)
    if p < 1 or p > len(mem):
        raise ModelError('FOAY0001')
    return ['array', mem[:p - 1] + [norm(member)] + mem[p:]]


def array_append(a, member):
    return ['array', require('array', a)[1] + [norm(member)]]


def array_insert_before(a, pos, member):
    mem = require('array', a)[1]
    p = require_int(pos)
    if p < 1 or p > len(mem) + 1:
        raise ModelError('FOAY0001')
    return ['array', mem[:p - 1] + [norm(member)] + mem[p - 1:]]


def array_remove(a, positions):
    mem = require('array', a)[1]
    ps = [require_int(p) for p in as_seq(norm(positions))]
    for p in ps:
        if p < 1 or p > len(mem):
            raise ModelError('FOAY0001')
    return ['array', [m for i, m in enumerate(mem, 1) if i not in ps]]


def array_subarray(a, start, length=None):
    mem = require('array', a)[1]
    s = require_int(start)
    if length is None:
        if s < 1 or s > len(mem) + 1:
            raise ModelError('FOAY0001')
        return ['array', mem[s - 1:]]
    ln = require_int(length)
    if s < 1 or s > len(mem) + 1:
        raise ModelError('FOAY0001')
    if ln < 0:
        raise ModelError('FOAY0002')
    if s + ln > len(mem) + 1:
        raise ModelError('FOAY0001')
    return ['array', mem[s - 1:s - 1 + ln]]


def array_head(a):
    mem = require('array', a)[1]
    if not mem:
        raise ModelError('FOAY0001')
    return mem[0]


def array_tail(a):
    mem = require('array', a)[1]
    if not mem:
        raise ModelError('FOAY0001')
    return ['array', mem[1:]]


def array_reverse(a):
    return ['array', list(reversed(require('array', a)[1]))]


def array_join(arrays):
    out = []
    for a in as_seq(norm(arrays)):
        out.extend(require('array', a)[1])
    return ['array', out]


def array_flatten(seq):
    out = []
    for it in as_seq(norm(seq)):
        if is_item(it) and it[0] == 'array':
            for m in it[1]:
                out.extend(as_seq(array_flatten(m)))
        else:
            out.append(it)
    return norm(out)


def lookup_all(v):
    """?* over every item of a sequence: map values (any order), array members (in order)."""
    out = []
    for it in as_seq(norm(v)):
        if is_item(it) and it[0] == 'array':
            for m in it[1]:
                out.extend(as_seq(m))
        elif is_item(it) and it[0] == 'map':
            for _, val in it[1]:
                out.extend(as_seq(val))
        else:
            raise ModelError('XPTY0004')
    return norm(out)
