"""
Seeded runner: template process -> workers -> one forked child per simulated run.

* one integer (VERIF_SEED) decides everything: run i of property P uses
  run_seed = sha256(P, VERIF_SEED, i); every choice in the run is drawn from
  random.Random(run_seed); results do not depend on the number of workers.
* every run is an os.fork() of a pristine template (world installed, elementpath imported,
  nothing evaluated), so replay starts from an identical process state.
* failures are minimised by delta debugging over operations / decisions and written as a
  replay file; replaying executes the stored case, never the PRNG.
"""
import os
import sys
import gc
import json
import time
import random
import hashlib
import select
import signal
import traceback
import selectors
import faulthandler

from . import world as W

VERIF_DIR = os.path.dirname(os.path.dirname(os.path.abspath(__file__)))


def run_seed(prop, verif_seed, i):
    h = hashlib.sha256(('%s/%d/%d' % (prop, verif_seed, i)).encode()).digest()
    return int.from_bytes(h[:8], 'big')


# ------------------------------------------------------------------------------------------
# fork helpers
# ------------------------------------------------------------------------------------------

def _write_all(fd, data):
    view = memoryview(data)
    while view:
        n = os.write(fd, view)
        view = view[n:]


MEM_LIMIT = 4 << 30


def fork_call(fn, timeout=120.0):
    """Run fn() in a forked child; returns ('ok', obj) | ('watchdog', None) | ('died', info)."""
    r, w = os.pipe()
    sys.stdout.flush()
    sys.stderr.flush()
    pid = os.fork()
    if pid == 0:
        status = 0
        try:
            os.close(r)
            # NB: never dump_traceback_later() in a forked child: cancelling the (non-existent after
            # fork) watchdog thread of the parent deadlocks. SIGUSR1 dumps the stack before a kill.
            try:
                faulthandler.register(signal.SIGUSR1, file=sys.stderr, all_threads=True)
            except Exception:
                pass
            gc.disable()
            try:
                # an evaluation that asks for gigabytes (1 to 2147483648) fails at once with MemoryError instead of
                # driving the machine into the OOM killer
                import resource
                resource.setrlimit(resource.RLIMIT_AS, (MEM_LIMIT, MEM_LIMIT))
            except Exception:
                pass
            try:
                out = fn()
                data = json.dumps(out, default=str).encode()
            except BaseException:
                data = json.dumps({'harness_error': traceback.format_exc()[-4000:]}).encode()
            _write_all(w, data)
            os.close(w)
        except BaseException:
            status = 3
        finally:
            os._exit(status)
    os.close(w)
    chunks = []
    deadline = time.time() + timeout
    timed_out = False
    while True:
        left = deadline - time.time()
        if left <= 0:
            timed_out = True
            break
        rl, _, _ = select.select([r], [], [], left)
        if not rl:
            timed_out = True
            break
        b = os.read(r, 1 << 16)
        if not b:
            break
        chunks.append(b)
    os.close(r)
    if timed_out:
        try:
            os.kill(pid, signal.SIGUSR1)
            time.sleep(0.3)
            os.kill(pid, signal.SIGKILL)
        except ProcessLookupError:
            pass
        os.waitpid(pid, 0)
        return 'watchdog', None
    _, st = os.waitpid(pid, 0)
    data = b''.join(chunks)
    if not data:
        return 'died', {'status': st}
    try:
        return 'ok', json.loads(data)
    except ValueError:
        return 'died', {'status': st, 'garbled': data[:200].decode('latin1')}


def execute(arm, case):
    """Execute one case in the *current* process (must be a fresh fork of the template)."""
    world = W.WORLD
    world.events = []
    try:
        res = arm.run_case(case, world)
    finally:
        world.stop_monitoring()
    res.setdefault('violations', [])
    res.setdefault('stats', {})
    res['digest'] = world.digest()
    res['nevents'] = len(world.events)
    probes = dict(world.probes)
    for k, v in world.fs.fired.items():
        probes['fault:io:' + k] = v
    if world.locale.faults_fired:
        probes['fault:setlocale-error'] = world.locale.faults_fired
    if world.crash_fired:
        probes['fault:async-crash'] = world.crash_fired
    res['probes'] = probes
    if os.environ.get('VERIF_VERBOSE'):
        res['events'] = list(world.events)
    return res


def pick_arm(prop_mod, rng):
    arms = prop_mod.ARMS
    total = sum(wt for _, wt in arms)
    x = rng.random() * total
    for arm, wt in arms:
        x -= wt
        if x < 0:
            return arm
    return arms[-1][0]


def do_run(prop_mod, verif_seed, i, tier, only_arm=None):
    rs = run_seed(prop_mod.ID, verif_seed, i)
    rng = random.Random(rs)
    arm = pick_arm(prop_mod, rng)
    if only_arm is not None:
        arm = dict((a.NAME, a) for a, _ in prop_mod.ARMS)[only_arm]
    case = arm.gen_case(rng, tier)
    res = execute(arm, case)
    res['arm'] = arm.NAME
    res['i'] = i
    if res.get('decisions') is not None and res['violations']:
        case = dict(case, decisions=res.pop('decisions'))     # replay mode: the schedule becomes data
    res.pop('decisions', None)
    if res['violations'] or res.get('harness_error') or i < 64:
        res['case'] = case
    return res


def diagnose_watchdog(prop_mod, verif_seed, i, tier, only_arm):
    """A run was killed by the wall-clock watchdog. Arms that define diagnose_timeout() get the chance to turn
    that into a verdict about one operation (re-executed alone); otherwise it stays a harness failure."""
    rs = run_seed(prop_mod.ID, verif_seed, i)
    rng = random.Random(rs)
    arm = pick_arm(prop_mod, rng)
    if only_arm is not None:
        arm = dict((a.NAME, a) for a, _ in prop_mod.ARMS)[only_arm]
    diag = getattr(arm, 'diagnose_timeout', None)
    if diag is None:
        return None
    case = arm.gen_case(rng, tier)
    viol = diag(case)
    if not viol:
        return None
    single = viol[0].pop('single_case', case)
    return {'i': i, 'arm': arm.NAME, 'violations': viol, 'stats': {}, 'probes': {'wall-clock-hang-diagnosed': 1},
            'digest': 'wall-clock', 'case': single, 'nontrivial': []}


# ------------------------------------------------------------------------------------------
# worker pool
# ------------------------------------------------------------------------------------------

def _worker(prop_mod, verif_seed, indices, tier, out_fd, deadline, run_timeout, only_arm):
    for i in indices:
        if time.time() > deadline:
            break
        st, res = fork_call(lambda: do_run(prop_mod, verif_seed, i, tier, only_arm), timeout=run_timeout)
        if st == 'watchdog':
            res = diagnose_watchdog(prop_mod, verif_seed, i, tier, only_arm) or \
                {'i': i, 'harness_error': 'child watchdog after %.0f s' % run_timeout}
        elif st != 'ok':
            res = {'i': i, 'harness_error': 'child %s %r' % (st, res)}
        line = (json.dumps(res, default=str) + '\n').encode()
        _write_all(out_fd, line)
    os.close(out_fd)
    os._exit(0)


def run_pool(prop_mod, verif_seed, nruns, tier, workers, wall_cap, run_timeout=120.0, only_arm=None,
             start=0):
    """Yields result dicts as they complete."""
    deadline = time.time() + wall_cap
    sel = selectors.DefaultSelector()
    pids = []
    sys.stdout.flush()
    for w in range(workers):
        r, wfd = os.pipe()
        indices = range(start + w, start + nruns, workers)
        pid = os.fork()
        if pid == 0:
            os.close(r)
            try:
                _worker(prop_mod, verif_seed, indices, tier, wfd, deadline, run_timeout, only_arm)
            finally:
                os._exit(4)
        os.close(wfd)
        pids.append(pid)
        sel.register(r, selectors.EVENT_READ, bytearray())
    open_fds = workers
    while open_fds:
        for key, _ in sel.select(timeout=5.0):
            b = os.read(key.fd, 1 << 16)
            if not b:
                sel.unregister(key.fd)
                os.close(key.fd)
                open_fds -= 1
                continue
            buf = key.data
            buf.extend(b)
            while True:
                nl = buf.find(b'\n')
                if nl < 0:
                    break
                line = bytes(buf[:nl])
                del buf[:nl + 1]
                yield json.loads(line)
    for pid in pids:
        os.waitpid(pid, 0)


# ------------------------------------------------------------------------------------------
# minimisation
# ------------------------------------------------------------------------------------------

def same_violation(res, target):
    """The violation in res that is 'the same' as target: same class and signature; when violations
    carry sig_base/flags (risk flags), same base and a subset of the target's flags."""
    if not isinstance(res, dict):
        return None
    for v in res.get('violations', ()):
        if v['cls'] != target['cls']:
            continue
        if 'sig_base' in target:
            if v.get('sig_base') == target['sig_base'] and set(v.get('flags', ())) <= set(target.get('flags', ())):
                return v
        elif v['signature'] == target['signature']:
            return v
    return None


class Minimiser:
    def __init__(self, arm, target, budget_s=60.0, parallel=8, run_timeout=60.0):
        self.arm = arm
        self.target = target          # the violation dict being minimised
        self.deadline = time.time() + budget_s
        self.parallel = parallel
        self.run_timeout = run_timeout
        self.executions = 0

    def _matches(self, res):
        if not isinstance(res, dict):
            return False
        return same_violation(res, self.target) is not None

    def fails_many(self, cases):
        """Returns index of the first case that still fails the same way, or None."""
        # run in batches of self.parallel concurrent forks
        for base in range(0, len(cases), self.parallel):
            if time.time() > self.deadline:
                return None
            batch = cases[base:base + self.parallel]
            procs = []
            for c in batch:
                r, w = os.pipe()
                pid = os.fork()
                if pid == 0:
                    os.close(r)
                    try:
                        gc.disable()
                        try:
                            out = execute(self.arm, c)
                            data = json.dumps(out, default=str).encode()
                        except BaseException:
                            data = b'{}'
                        _write_all(w, data)
                    finally:
                        os._exit(0)
                os.close(w)
                procs.append((pid, r))
            self.executions += len(batch)
            found = None
            for k, (pid, r) in enumerate(procs):
                data = b''
                t_end = time.time() + self.run_timeout
                while True:
                    left = t_end - time.time()
                    rl, _, _ = select.select([r], [], [], max(0.0, left))
                    if not rl:
                        try:
                            os.kill(pid, signal.SIGKILL)
                        except ProcessLookupError:
                            pass
                        break
                    b = os.read(r, 1 << 16)
                    if not b:
                        break
                    data += b
                os.close(r)
                os.waitpid(pid, 0)
                if found is None:
                    try:
                        res = json.loads(data) if data else None
                    except ValueError:
                        res = None
                    if self._matches(res):
                        found = base + k
            if found is not None:
                return found
        return None

    def fails(self, case):
        return self.fails_many([case]) == 0

    def ddmin_list(self, case, key):
        items = list(case.get(key) or [])
        if len(items) <= 1:
            return case
        n = 2
        while len(items) >= 1 and time.time() < self.deadline:
            chunk = max(1, len(items) // n)
            cands = []
            for start in range(0, len(items), chunk):
                rest = items[:start] + items[start + chunk:]
                c = dict(case)
                c[key] = rest
                cands.append(c)
            idx = self.fails_many(cands)
            if idx is not None:
                items = cands[idx][key]
                case = cands[idx]
                n = max(n - 1, 2)
                if len(items) <= 1:
                    break
            else:
                if chunk == 1:
                    break
                n = min(len(items), n * 2)
        return case

    def minimise(self, case):
        for key in ('ops', 'threads', 'decisions'):
            if isinstance(case.get(key), list):
                case = self.ddmin_list(case, key)
        simplify = getattr(self.arm, 'simplify', None)
        if simplify is not None:
            progress = True
            rounds = 0
            while progress and time.time() < self.deadline and rounds < 50:
                rounds += 1
                progress = False
                cands = list(simplify(case))
                if not cands:
                    break
                idx = self.fails_many(cands)
                if idx is not None:
                    case = cands[idx]
                    progress = True
            for key in ('ops', 'decisions'):
                if isinstance(case.get(key), list):
                    case = self.ddmin_list(case, key)
        return case


# ------------------------------------------------------------------------------------------
# known findings
# ------------------------------------------------------------------------------------------

def load_known():
    path = os.path.join(VERIF_DIR, 'known_findings.json')
    try:
        with open(path) as fp:
            return json.load(fp).get('findings', [])
    except FileNotFoundError:
        return []


def match_known(known, prop, arm, viol):
    import re
    for k in known:
        if k.get('status') != 'known' or k.get('property') != prop:
            continue
        m = k.get('match', {})
        if m.get('arm') and m['arm'] != arm:
            continue
        if m.get('cls') and m['cls'] != viol['cls']:
            continue
        if m.get('signature') and not re.fullmatch(m['signature'], viol['signature']):
            continue
        feats = set(viol.get('features', ()))
        if any(f not in feats for f in m.get('features_all', ())):
            continue
        if any(f in feats for f in m.get('features_none', ())):
            continue
        if m.get('features_any') and not any(f in feats for f in m['features_any']):
            continue
        return k
    return None


# ------------------------------------------------------------------------------------------
# main check driver
# ------------------------------------------------------------------------------------------

def sig_hash(s):
    return hashlib.sha256(s.encode()).hexdigest()[:12]


def run_check(prop_mod, tier, verif_seed, nruns=None, workers=None, wall_cap=None, only_arm=None,
              minimise_budget=None, write_evidence=True, quiet=False):
    t0 = time.time()
    if getattr(prop_mod, 'WARMUP', None):
        prop_mod.WARMUP()       # harness-side caches only (reference models), never elementpath
    cfg = prop_mod.TIERS[tier]
    nruns = nruns or cfg['runs']
    workers = workers or min(16, os.cpu_count() or 1)
    wall_cap = wall_cap or cfg.get('wall_cap', 600)
    known = load_known()
    arms = dict((a.NAME, a) for a, _ in prop_mod.ARMS)
    start_zero = True

    agg = {'runs': 0, 'ops': 0, 'stats': {}, 'probes': {}, 'per_arm': {}, 'harness_errors': [],
           'nontrivial': set(), 'interleavings': set(), 'states': set(), 'samples': []}
    groups = {}     # (arm, cls, signature) -> list of (size, case, viol, i)
    digests = {}
    for res in run_pool(prop_mod, verif_seed, nruns, tier, workers, wall_cap, only_arm=only_arm,
                        run_timeout=cfg.get('run_timeout', 120.0)):
        if 'harness_error' in res and 'violations' not in res:
            agg['harness_errors'].append((res.get('i'), res['harness_error']))
            continue
        if res.get('harness_error'):
            agg['harness_errors'].append((res.get('i'), res['harness_error']))
        agg['runs'] += 1
        digests[res['i']] = res['digest']
        arm = res['arm']
        agg['per_arm'][arm] = agg['per_arm'].get(arm, 0) + 1
        for k, v in res.get('stats', {}).items():
            agg['stats'][k] = agg['stats'].get(k, 0) + v
        for k, v in res.get('probes', {}).items():
            agg['probes'][k] = agg['probes'].get(k, 0) + v
        for k in res.get('nontrivial', ()) or ():
            agg['nontrivial'].add(k)
        if res.get('interleaving'):
            agg['interleavings'].add(res['interleaving'])
        for s in res.get('states', ()) or ():
            agg['states'].add(s)
        if 'case' in res and len(agg['samples']) < 3 and not res['violations'] and res.get('nontrivial'):
            agg['samples'].append({'arm': arm, 'run': res['i'], 'case': res['case']})
        for v in res['violations']:
            # grouped also by the recorded finding that the violation's own features match (or none), so that a
            # recorded finding can never absorb a different violation that happens to share class and signature
            kf = match_known(known, prop_mod.ID, arm, v)
            key = (arm, v['cls'], v['signature'], kf['id'] if kf is not None else '')
            groups.setdefault(key, []).append((len(json.dumps(res.get('case'))), res.get('case'), v, res['i']))

    # determinism sample: the first runs are executed again (other worker count); the event-log digests must agree
    det_n = min(8, nruns)
    det_bad = []
    if start_zero and det_n and time.time() - t0 < wall_cap:
        for res in run_pool(prop_mod, verif_seed, det_n, tier, 3, 120, only_arm=only_arm,
                            run_timeout=cfg.get('run_timeout', 120.0)):
            if 'digest' in res and res['i'] in digests and res['digest'] != digests[res['i']]:
                det_bad.append(res['i'])
        if det_bad:
            agg['harness_errors'].append((det_bad[0], 'determinism sample diverged on runs %r' % det_bad))
    agg['determinism_sample'] = {'runs': det_n, 'diverged': det_bad}

    # triage
    violations = []
    known_hits = []
    minimise_spent = [0.0]
    replay_dir = os.path.join(VERIF_DIR, 'replays', prop_mod.ID)
    for key in sorted(groups):
        arm_name, cls, signature, _kid = key
        entries = sorted(groups[key], key=lambda e: (e[0], e[3]))
        size, case, viol, i = entries[0]
        arm = arms[arm_name]
        k = match_known(known, prop_mod.ID, arm_name, viol)
        min_first = getattr(arm, 'MINIMISE_BEFORE_KNOWN', False)
        if k is not None and not min_first:
            known_hits.append((k, key, len(entries), viol))
            continue
        if k is None and len(violations) >= 30:
            continue        # 30 replay files are enough to report a tree that is broken in many ways
        # minimise + write replay
        budget = minimise_budget if minimise_budget is not None else cfg.get('minimise_budget', 45.0)
        if k is not None:
            budget = min(budget, cfg.get('known_minimise_budget', 8.0))
        elif minimise_spent[0] > cfg.get('total_minimise_budget', 6 * budget):
            # a change that breaks many things at once: the remaining groups are reported (and replayed) unminimised
            budget = 0
        t_min = time.time()
        mini = case
        mexec = 0
        if budget > 0 and case is not None and 'wall-clock' not in viol.get('features', ()):
            m = Minimiser(arm, viol, budget_s=budget, parallel=min(16, workers))
            try:
                mini = m.minimise(case)
            except Exception:
                mini = case
            mexec = m.executions
        if k is None:
            minimise_spent[0] += time.time() - t_min
        wall_clock = 'wall-clock' in viol.get('features', ())
        st, final = fork_call(lambda: execute(arm, mini), timeout=30.0 if wall_clock else 120.0)
        fv = same_violation(final, viol) if st == 'ok' else None
        if wall_clock and st == 'watchdog':
            fv, final = viol, {}
        elif fv is None:      # minimised case does not replay: fall back to the original
            mini = case
            st, final = fork_call(lambda: execute(arm, mini))
            fv = same_violation(final, viol) if st == 'ok' else None
        # known findings are predicates over the minimised case
        k = match_known(known, prop_mod.ID, arm_name, fv if fv is not None else viol)
        if k is not None:
            known_hits.append((k, key, len(entries), fv or viol))
            continue
        fcls, fsig = (fv or viol)['cls'], (fv or viol)['signature']
        os.makedirs(replay_dir, exist_ok=True)
        path = os.path.join(replay_dir, '%s-%s.json' % (arm_name, sig_hash(fcls + '|' + fsig)))
        with open(path, 'w') as fp:
            json.dump({'format': 1, 'property': prop_mod.ID, 'arm': arm_name, 'verif_seed': verif_seed,
                       'run': i, 'tier': tier, 'pythonhashseed': os.environ.get('PYTHONHASHSEED'),
                       'case': mini,
                       'verdict': {'cls': fcls, 'signature': fsig,
                                   'detail': (fv or viol).get('detail'),
                                   'features': (fv or viol).get('features', []),
                                   'digest': final.get('digest') if st == 'ok' and fv is not None else None,
                                   'reproduced_after_minimisation': fv is not None},
                       'occurrences_in_batch': len(entries), 'minimiser_executions': mexec},
                      fp, indent=1, default=str)
        violations.append(((arm_name, fcls, fsig), path, fv or viol, len(entries)))

    wall = time.time() - t0
    out_lines = []
    seen_known = set()
    for k, key, n, viol in known_hits:
        if k['id'] in seen_known:
            continue
        seen_known.add(k['id'])
        out_lines.append('KNOWN-FINDING: property=%s %s [%s] (%d runs; e.g. %s)' % (
            prop_mod.ID, k['what'], k['id'], sum(x[2] for x in known_hits if x[0]['id'] == k['id']),
            str(viol.get('detail'))[:160]))
    seen_paths = set()
    for key, path, viol, n in violations:
        if path in seen_paths:
            continue
        seen_paths.add(path)
        out_lines.append('VIOLATION property=%s replay=%s' % (prop_mod.ID, path))
        out_lines.append('  class=%s signature=%s occurrences=%d detail=%s' % (
            key[1], key[2], n, str(viol.get('detail'))[:300]))
    for i, err in agg['harness_errors'][:5]:
        out_lines.append('HARNESS-ERROR run=%s %s' % (i, str(err)[-600:]))

    evidence = None
    if write_evidence:
        evidence = write_evidence_file(prop_mod, tier, verif_seed, agg, violations, known_hits, wall, nruns,
                                       workers)
    if not quiet:
        for line in out_lines:
            print(line)
        print('%s tier=%s seed=%d runs=%d/%d wall=%.1fs violations=%d known=%d harness_errors=%d' % (
            prop_mod.ID, tier, verif_seed, agg['runs'], nruns, wall, len(violations), len(seen_known),
            len(agg['harness_errors'])))
    if violations:
        code = 1
    elif agg.get('determinism_sample', {}).get('diverged'):
        code = 2
    elif agg['harness_errors'] and len(agg['harness_errors']) > max(2, agg['runs'] // 200):
        code = 2
    elif agg['runs'] == 0:
        code = 2
    else:
        code = 0
    return code, {'agg': agg, 'violations': violations, 'known_hits': known_hits, 'digests': digests,
                  'evidence': evidence}


def write_evidence_file(prop_mod, tier, verif_seed, agg, violations, known_hits, wall, nruns, workers):
    level = prop_mod.LEVEL
    faults = {k[6:]: v for k, v in agg['probes'].items() if k.startswith('fault:')}
    probes = {k: v for k, v in agg['probes'].items() if not k.startswith('fault:')}
    expected = getattr(prop_mod, 'EXPECTED_PROBES', [])
    zero = [p for p in expected if not agg['probes'].get(p)]
    cov = {
        'evaluations': agg['runs'],
        'distinct_nontrivial': len(agg['nontrivial']),
        'rule': prop_mod.RULE,
        'samples': agg['samples'] or [{'note': 'no sample recorded'}],
        'runs_requested': nruns,
        'runs_per_hour': int(agg['runs'] / max(wall, 1e-6) * 3600),
        'workers': workers,
        'per_arm_runs': agg['per_arm'],
        'counters': agg['stats'],
        'faults_fired': faults,
        'reach_probes': probes,
        'probes_stuck_at_zero': zero,
        'distinct_interleavings': len(agg['interleavings']),
        'interleaving_measure': 'sha256 of the (task, kind) sequence at seam events (lock/locale/io/generator-step)',
        'distinct_world_states': len(agg['states']),
        'simulated_time_s': agg['stats'].get('sim_clock_seconds', 0),
        'real_components': getattr(prop_mod, 'REAL', []),
        'stub_components': getattr(prop_mod, 'STUB', []),
        'known_findings_hit': sorted(set(k['id'] for k, _, _, _ in known_hits)),
        'determinism_sample': agg.get('determinism_sample'),
        'harness_errors': len(agg['harness_errors']),
        'exhaustive': False,
    }
    ev = {
        'property_id': prop_mod.ID,
        'tier': tier,
        'seed': verif_seed,
        'level': level,
        'coverage': cov,
        'assumptions': getattr(prop_mod, 'ASSUMPTIONS', []),
        'wall_s': round(wall, 2),
        'violations': len(violations),
    }
    os.makedirs(os.path.join(VERIF_DIR, 'evidence'), exist_ok=True)
    path = os.path.join(VERIF_DIR, 'evidence', prop_mod.ID + '.json')
    tmp = path + '.tmp'
    with open(tmp, 'w') as fp:
        json.dump(ev, fp, indent=1, default=str)
    os.replace(tmp, path)
    return ev


def replay_file(path, props):
    with open(path) as fp:
        rep = json.load(fp)
    prop_mod = props[rep['property']]
    if getattr(prop_mod, 'WARMUP', None):
        prop_mod.WARMUP()
    arm = dict((a.NAME, a) for a, _ in prop_mod.ARMS)[rep['arm']]
    want = rep['verdict']
    wall_clock = str(want.get('signature', '')).startswith('hang:wall-clock')
    st, res = fork_call(lambda: execute(arm, rep['case']), timeout=30.0 if wall_clock else 120.0)
    if wall_clock and st == 'watchdog':
        print('replay %s: the operation again does not finish within 30 s: REPRODUCED' % path)
        print('VIOLATION property=%s replay=%s' % (rep['property'], path))
        return 1
    if st != 'ok':
        print('REPLAY harness failure: %s %r' % (st, res))
        return 2
    got = [(v['cls'], v['signature']) for v in res.get('violations', ())]
    same = (want['cls'], want['signature']) in got
    dig_ok = (want.get('digest') is None) or (want['digest'] == res.get('digest'))
    print('replay %s: verdict %s; digest %s' % (path, 'REPRODUCED' if same else 'NOT reproduced (got %r)' % got,
                                                'identical' if dig_ok else 'DIFFERENT'))
    if os.environ.get('VERIF_VERBOSE'):
        for ev in res.get('events', ()):
            print('   ', ev)
    if same:
        for v in res['violations']:
            if (v['cls'], v['signature']) == (want['cls'], want['signature']):
                print('  detail: %s' % str(v.get('detail'))[:500])
                break
        print('VIOLATION property=%s replay=%s' % (rep['property'], path))
        return 1
    return 0
